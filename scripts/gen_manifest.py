#!/usr/bin/env python3
"""Generates /verif/MANIFEST.json from the table below (kept in one place so it stays valid)."""
import json, os, subprocess
ROOT = os.path.dirname(os.path.dirname(os.path.abspath(__file__)))

def hook_commits():
    try:
        out = subprocess.check_output(["git", "-C", "/repo", "log", "--format=%h %s"], text=True)
        return [l.split()[0] for l in out.splitlines() if l.split(" ", 1)[1].startswith("verif:")]
    except Exception:
        return []

TB = ("Trusted base: Go 1.26.8 + 5-file runtime overlay (seeded select/map/timer-tie/rand, no time-slice preemption), "
      "testing/synctest fake clock, lockshim (channel locks + yield hook), simnet TCP model, the oracles. "
      "Sampling, not proof: a clean batch is evidence for the schedules/faults explored.")

# id -> (level category, technique, text, design_ref, note)
CLAIMED = {
 "C01": ("exploration", "deterministic simulation: seeded emitter interleavings (yield stalls), latency/jitter/chunking network, typed-handler delivery oracle keyed by unique emission ids",
         "Real sio server and 1-3 real sio clients over the simulated network on polling / websocket / polling->websocket upgrade, recovery on/off, three buffer limits; up to 8 emitter tasks per run emit events of 12 argument-shape classes and 17 event names with size targets at the 125/126, 32 KiB, 64 KiB and limit boundaries; each emission must reach exactly one handler, the one registered for its name, with equal arguments; any disconnect on the fault-free network is a violation.",
         "§7 C01", TB),
 "C02": ("exploration", "deterministic simulation: 1-16 emitting goroutines under seeded stalls on the send queue and dispatch code; order observed on the wire by a protocol-level peer (the repository's Engine.IO endpoint + reference decoder) and at handler entry in a sio<->sio rig",
         "Four worlds per direction and observation point: the library's client emitting to the repository's Engine.IO server under a hand-written Socket.IO decoder (wire order, client to server); the library's server emitting with socket.Emit and namespace broadcasts to the repository's Engine.IO client under the same decoder (wire order, server to client); sio<->sio with order taken at handler entry on the server and on the client. Each on polling, WebSocket and after a completed upgrade. 1-16 goroutines emit bursts of 1-12 events with 0-4 tagged attachments. Oracle: per goroutine the events are observed in emission order; on the wire a binary header announcing n attachments is followed by exactly its own n attachments, in order, before any other frame of the connection; attachments reach the handler with the content they were emitted with; Emit never blocks.",
         "§7 C02", TB),
 "C03": ("exploration", "deterministic simulation: reply delays placed around the ack time-out incl. exact coincidence on a zero-latency network, offline (buffered) emits, black-holed link, duplicate ACKs from a raw server; callback-counting oracle with measured slack",
         "Real sio server and client, both directions, text and binary (0-3 attachments): peers answer after {0, T-eps, exactly T, T+eps, never}, some call the ack function twice; coincide mode produces the reply exactly T (+-2 ns) after the emit on a zero-latency network; offline mode emits before Connect and connects before or after the time-out; cut mode black-holes the link with acks outstanding; rawdup: a raw WebSocket server sends every ACK 2-3 times. Per callback: at most one entry; with a time-out exactly one, by emit+T+measured slack, carrying the peer's reply (id echoed, payload equal) or ErrAckTimeout with zero values - the reply when it was there clearly in time, the time-out when the peer acked clearly late; afterwards a fresh emit-with-ack on the same socket completes and no Socket.IO-level mutex is left held.",
         "§7 C03", TB),
 "C04": ("exploration", "deterministic simulation: real adapters + BroadcastOperator behind a recording rig; seeded membership/broadcast histories against a reference model, interval semantics under concurrency with stalls on the adapter mutex, porcupine for membership operations; exhaustive 3x3 matrix as a fixed plan",
         "Component rig over the repository's own SocketStore/Socket interfaces (in-memory and session-aware adapter). Sequential histories of join/leave/disconnect/SocketsJoin/SocketsLeave/DisconnectSockets/namespace and socket broadcasts/operator reuse: recipients equal the model exactly, each once, never the sender, membership equals the net effect of joins and leaves, a disconnected socket is in no room. Fixed plan: all 2^9 membership matrices of 3 sockets x 3 rooms x all 64 (T,E) (exhaustive). Concurrent histories (2-5 tasks, stalls while apply() has released its mutex): a socket whose membership nobody touched during the broadcast gets it iff the model says so, everybody else 0 or 1 times, nobody twice; AddAll/Delete/DeleteAll/SocketRooms histories linearizable against a map of sets.",
         "§7 C04", TB),
 "C05": ("exploration", "deterministic simulation: seeded programs of connect / emit / ack / broadcast / disconnect operations over look-alike namespaces multiplexed on shared connections, under stalls on the routing code; protocol-level peer sending packets for namespaces it has not joined",
         "Real sio server with 2-5 namespaces out of {/, /a, /ab, /a/b, /A, /chat, /chat/, /ünï, /a-b}; 1-3 managers, each with sockets in 1-4 of them on one connection, optionally one in a namespace the server does not have; 10-60 operations at drawn (often coinciding) instants: client and server emits with and without acknowledgement, namespace and room broadcasts (every socket is in room r of its namespace), Disconnect from either side. Every payload names its namespace, target manager and a unique id. Oracle: every handler and acknowledgement callback runs in the namespace and for the socket its payload names (acknowledgement ids collide across namespaces by construction); the unknown namespace yields exactly one connect_error and never connects; a socket that nobody disconnected stays connected and passes a final probe in both directions whatever happened to its siblings; no call blocks. raw mode: a protocol-level polling peer that has joined a drawn subset sends EVENT / ACK / DISCONNECT / BINARY_EVENT / EVENT-with-id for an existing-but-unjoined or unknown namespace (incl. the '/,' spelling): no handler may run, the connection must be closed, a witness client on another connection stays connected.",
         "§7 C05", TB),
 "C06": ("fault_enumeration", "deterministic simulation: termination cause x phase matrix with simultaneous causes + fixed sweep of connection cuts over byte offsets; lifecycle-handler counting oracle, server-state residue checks, sid probe",
         "Real sio server, a victim client and a bystander. Causes {client Disconnect, manager Close, server Disconnect(false/true), DisconnectSockets(false/true), Server.Close, cut, fin, black-hole}, one or two at the same fake instant, in phases {idle, mid-burst both ways, during the upgrade, while a namespace middleware sleeps, Engine.IO session without CONNECT}; fixed sweep: victim's polling/WebSocket connections cut at byte k. Every server socket whose connection handler ran: disconnecting once with rooms still joined, then disconnect once, reason in the cause's set; client: one disconnect per connection; afterwards the socket is in no Sockets() list and no room, the old Engine.IO sid answers {code:1}; the bystander is untouched; no closing call hangs.",
         "§7 C06", TB),
 "C07": ("fault_enumeration", "deterministic simulation: faults on the candidate connection enumerated over byte offsets of both directions + seeded refuse/stall/black-hole + reactive 'pong at the time-out instant' coincidence; exactly-once delivery oracle on numbered messages",
         "Real eio server and client upgrading polling->websocket while numbered text/binary messages flow both ways around the swap. Fixed sweep: the candidate connection is cut at byte k of c2s and s2c (every 12th byte quick, every byte thorough: each protocol step of the upgrade). Seeded: refused, stalled past either side's upgrade time-out, black-holed; the probe pong held until the client's time-out instant +-2 ns. Sessions that stayed up: every message exactly once; never a duplicate or phantom; close reported at most once; if nobody switched, the session keeps working on polling (probe messages both ways); fault-free upgrades complete with both ends on websocket; no API call hangs.",
         "§7 C07", TB),
 "C08": ("exploration", "deterministic simulation: real session-aware adapter behind the recording rig with simulated time (windows up to 2 min, cleaner passes), reference model = single-copy log + session table; end to end with raw peers tracking pid/offset and with the library's own reconnecting client under refuse/cut/heal faults",
         "log: histories of namespace/room/except broadcasts and direct emits over up to 3 windows, sessions disconnecting at any point and restoring on both sides of the window (incl. exactly W), cleaner passes between (period 1 s/10 s via the verif creator, 1 min production creator), concurrent broadcasters incl. same-instant bursts; a restore within the window returns same sid/rooms and exactly the model's missed list (all, log order, none twice, never a packet the session already had), otherwise it is refused - refusal is only accepted when the session or the offset packet is older than W or unknown. raw: real sio server, a raw polling peer reconnects with pid+offset; replayed frames must decode, equal the missed list, binary attachments byte-identical, recovered socket has its rooms. goclient: the library client after cut + refused dials + heal: reconnects, Recovered() consistent, every event emitted while away reaches its handler exactly once.",
         "§7 C08", TB),
 "C10": ("exploration", "deterministic simulation: hostile-frame fault kind from a raw protocol peer against the real server/client, process-death attribution by the supervisor; plus labelled input enumeration of the decoder",
         "A raw peer (polling POSTs or WebSocket) sends sequences of grammar-aware hostile Socket.IO frames, mixed with valid ones, to the real server while an honest real client shares it; a raw WebSocket server does the same to the real Go client. The worker process must survive, the honest connection must still complete an emit-with-ack, a new connection must be possible, the client API must return. Side run (input enumeration, kept apart): every string <= 4 (thorough 5) over the protocol alphabet and the whole corpus through Parser.Add + decode for 7 handler signature families.",
         "§7 C10", TB),
 "C11": ("exploration", "deterministic simulation of the stream framer (sender and receiver tasks over a chunking simulated connection, cuts at byte offsets, silence after a header); plus labelled input enumeration of the pure codecs against a v4 reference encoder",
         "The WebTransport length-prefix framer (send / nextPacket / limitedReader through verif exports) over a simulated connection with 1-byte..whole-frame chunking, latency and sender pauses: frames of the boundary lengths of all three prefix forms (0,1,124..128,65534..65537,70000) and random ones round-trip in order; a stream cut at a byte offset yields the intact prefix of frames and then an error, never a wrong packet; a header announcing L bytes followed by silence yields an error and no allocation beyond the limit. Side runs (input enumeration, kept apart): Packet.Encode/Decode/EncodedLen for every type x lengths 0..40,1000 x {raw, base64} and EncodePayloads/DecodePayloads/EncodedPayloadsLen for every sequence of 1..4 packets from a pool of 7, both against a reference v4 encoder; every byte string <= 3 (thorough 4) over 12 significant bytes into Decode/DecodePayloads/nextPacket without panic.",
         "§7 C11", TB),
 "C12": ("exploration", "deterministic simulation: seeded middleware chains with delays, clients connecting concurrently, broadcasts issued while chains run, event middlewares; ordering / admission / residue oracle",
         "Real sio server (default or custom namespace) with a chain of 0-5 namespace middlewares, each with a delay, a set of clients it rejects (by error, string or struct) and optionally a room it joins first; 1-4 real clients connect at drawn instants on every transport; namespace broadcasts at drawn instants; admitted sockets carry an event middleware. Per client: middlewares run in registration order and stop at the first rejection; connect iff all accepted, else exactly one connect_error whose payload equals the rejection; while a chain runs and after a rejection the socket is in no Sockets() list and no room, its connection handlers never ran, no broadcast whose Emit returned before the chain finished reaches it. Events: the event middleware sees the event's name and arguments before the handler; a rejected event never enters the handler; accepted ones do.",
         "§7 C12", TB),
 "C13": ("exploration", "deterministic simulation: raw peer with exact framing (Content-Length / chunked / WebSocket / fragmented) at the limit boundaries, body-byte accounting; real-client bursts against small maxPayload; plus labelled exhaustive enumeration of the batcher",
         "Inbound: one message of exact wire size limit-1/limit/limit+1/10x limit by four framings against tiny/default/disabled limits - over-limit never reaches OnPacket, session closed, sender told, the library pulls <= limit+4 KiB out of the body; in-limit delivered and the session keeps working. Outbound: both directions around 32 KiB/64 KiB on every transport. Batch: concurrent bursts from the real polling client, every POST the server sees fits maxPayload, nothing dropped/duplicated/reordered. Side run (input enumeration): VerifClientBatches for every vector of <= 6 packet sizes x every maxPayload.",
         "§7 C13", TB),
 "C14": ("fault_enumeration", "deterministic simulation: black-hole fault enumerated over heartbeat phase x transport x direction + seeded search; detection-time oracle on the fake clock",
         "Real eio server/client pairs on all three transport modes with ping values 1-3 s; the link is silently black-holed (both ways or one way) at swept and drawn phases of the heartbeat and of the upgrade; each side must report close with a ping-time-out/transport reason no later than its last received heartbeat + pingInterval + pingTimeout (+ overlapping injected stalls); live mode: 50-80 heartbeat periods with traffic at every phase offset, nobody may close.",
         "§7 C14", TB),
 "C15": ("exploration", "deterministic simulation: seeded outages (refused dials, black-holed dials, server crash and restart, flapping) x reconnection settings x emits placed before/during/after; back-off, give-up, liveness and buffered-emit oracles on the fake clock; plus labelled enumeration of the back-off function",
         "Real sio client (manager + socket) with drawn ReconnectionAttempts 0-5, delay, maximum and jitter against (proto mode) the repository's Engine.IO server under a hand-written Socket.IO layer that records the order on the wire, or (sio mode) the real sio server with handlers attached in the connection handler. Outage of a drawn kind and length (0.2-3x the sum of the back-off delays); plain, volatile and ack-carrying emits before, during and after it and in the connect-pending window. Oracle: each delay between a failure and the next attempt lies in (0, max] and in the jitter band of delay x 2^k (attempts and failures paired per cycle); exactly ReconnectionAttempts failures precede exactly one reconnect_failed and nothing follows it; once reachable again the client connects unless it gave up; non-volatile emits made while not connected arrive exactly once, after the CONNECT packet, in emission order, when the next connection lasts; volatile ones made while disconnected never arrive; nothing arrives twice; Emit never blocks. Side run (input enumeration): duration() for min x max x jitter x attempt number 0..70, 100, 1000, 2^31, 2^32-2 is in (0, max].",
         "§7 C15", TB),
 "C16": ("exploration", "deterministic simulation of seeded concurrent API programs run by the race-detector build of the simulator: race detector (happens-before) + instrumented mutexes with hang watchdog, held-lock audit at quiescence, panic capture",
         "Mode race: the worker is the -race build of the same simulator (real library, simulated network and clock, seeded yields at every mutex operation, one P) with a harness that is invisible to the detector (no harness mutex, atomic or channel shared between tasks; sockets handed over by atomic publication). Mode locks: the ordinary build with the instrumented-mutex registries on. One plan = 2-16 tasks x 5-40 operations out of 33 kinds over Server, Namespace, BroadcastOperator, ServerSocket, ClientSocket and Manager (emit with and without acknowledgement and time-out, broadcasts with shared argument values, join/leave, SocketsJoin/SocketsLeave/DisconnectSockets/FetchSockets, handler and middleware registration and removal, connect/disconnect/close/open, dynamic namespaces), with event, acknowledgement, connection and disconnect handlers that issue operations themselves. Oracle: no race report whose two accesses both have a repository frame among their top six; no call still pending and no instrumented lock still held 15 s (fake) after the program; no bubble-wide deadlock; no lock misuse; no panic. GOMAXPROCS>1 is not used (it would make runs unrepeatable; the race detector's happens-before analysis does not need parallel execution).",
         "§7 C16", TB),
 "C17": ("exploration", "deterministic simulation: exhaustive request matrix per world under seeded stalls; handshakes racing Server.Close; session-store linearizability (porcupine, set model); plus labelled enumeration of id generation",
         "A raw HTTP peer sends the full matrix (6 methods x 5 EIO values x 4 transports x 4 sid kinds x b64 x j = 1920 requests, shuffled per world) to a real eio server holding one live and one closed session: requests with defects get HTTP 400 + a JSON error whose code is one of the defects present, create no session, leave the live session working (probed every 64 requests); requests without defect are served. closerace: 2-12 polling/WebSocket handshakes at instants around Server.Close with stalls on the store and server paths - afterwards every created session is closed, old sids answer no poll, new handshakes are refused. churn: concurrent open/close/probe histories checked for linearizability against a set, sids unique among live sessions. Side run (input enumeration): 2x10^5 (thorough 10^6) GenerateBase64ID calls distinct.",
         "§7 C17", TB),
 "C18": ("exploration", "deterministic simulation: seeded handler-registration programs against a set-valued reference model; occurrences racing Once/On/Off under stalls on the store mutex",
         "Public API only (Namespace.OnEvent/OnceEvent/OffEvent/OffAll fired by OnServerSideEmit; Server.OnNewNamespace/OnceNewNamespace/OffNewNamespace fired by creating namespaces). Sequential programs of 4-40 operations over 3 events and 6 distinct function literals (same handler twice, several removed in one call, absent handlers, Off without handler, OffAll): after every occurrence the multiset of handlers entered must be one the registrations allow (set-valued after Off of a doubly registered handler); no call may panic. Race mode: 2-6 tasks fire one event while others register Once/On and remove, with stalls on store.go: a Once registration runs at most once, an On handler registered before runs for every occurrence.",
         "§7 C18", TB),
 "C19": ("exploration", "deterministic simulation: seeded yield-point stalls at lock boundaries + timer alignment; latency oracle; porcupine FIFO check",
         "Seeded search over interleavings of pollers/sender goroutine and producers on the real pollQueue/packetQueue (and full stack), with stalls injected exactly between emptiness check and wait; hand-off latency above the overlapping injected stalls is a lost wake-up.",
         "§7 C19", TB),
}
PENDING = {
 "C09": "not applicable to deterministic simulation with fault injection: the property quantifies over inputs only (packet types, namespaces, ids, event names, argument trees); Encode and the decode closure are pure functions of their input with no schedule, clock, fault or interleaving in them, so there is nothing for a simulator to decide. Input generation dressed in simulator vocabulary would not be this technique. What touches schedules is covered elsewhere: the 'leaves its input intact' clause was observed failing inside the simulation of C16 (a value broadcast twice crashed the process; two tasks emitting one value raced) and was repaired there (fix 28e35f3); intactness of arguments over the wire under concurrency is C01's oracle; hostile frames against the decoder are C10's. See DESIGN.md §7 C09.",
}

def main():
    props = [json.loads(l) for l in open(os.path.join(ROOT, "properties.jsonl"))]
    checks, na = [], []
    for p in props:
        pid = p["id"]
        if pid in CLAIMED:
            cat, tech, text, ref, note = CLAIMED[pid]
            checks.append({
                "property_id": pid,
                "quick_cmd": f"scripts/check.sh {pid} quick",
                "thorough_cmd": f"scripts/check.sh {pid} thorough",
                "evidence_file": f"evidence/{pid}.json",
                "replay_cmd_template": "scripts/check.sh --replay {path}",
                "engine": "dst",
                "level_claimed": {"category": cat, "text": text, "design_ref": ref},
                "level_note": note,
                "technique": tech,
            })
        else:
            na.append({"property_id": pid, "reason": PENDING.get(pid, "not claimed yet: its simulated check is still being built in this session (see DESIGN.md §13); not a judgement that simulation cannot apply")})
    m = {
        "version": 1,
        "setup_cmd": "scripts/setup.sh",
        "hooks": {
            "guard": "verif",
            "enable": "go1.26.8 build -overlay dst/overlay/gen/overlay.json -tags 'sio_deadlock verif' (scripts/build.sh); sio_deadlock is the repo's own tag, its go-deadlock import is replaced by dst/lockshim in dst/go.mod",
            "baseline_off_cmd": "cd /repo && GOFLAGS=-mod=mod GOPROXY=off GOSUMDB=off go test -vet=off -count=1 -timeout 25m ./...",
            "source_commits": hook_commits(),
            "add_only": True,
        },
        "engines": [{
            "name": "dst", "path": "dst/",
            "serves_properties": sorted(CLAIMED),
            "kind_free_text": "deterministic simulation with fault injection: real library in a testing/synctest bubble on one P, seeded runtime overlay, channel-lock shim with yield hook, in-memory network with faults, seeded plan search, ddmin minimiser, replay files",
        }],
        "checks": checks,
        "notes": "Exit 2 = infrastructure trouble (build, determinism mismatch, watchdog), never a violation. VERIF_SEED selects the plan stream; VERIF_RUNS / VERIF_BUDGET_S override the per-tier budget.",
        "not_applicable": na,
    }
    json.dump(m, open(os.path.join(ROOT, "MANIFEST.json"), "w"), indent=1)
    print("claimed", len(checks), "unclaimed", len(na))

main()
