# sourced by every script: offline Go environment for the harness
export GOFLAGS=-mod=mod GOPROXY=off GOSUMDB=off GOTOOLCHAIN=local
export VERIF_ROOT="${VERIF_ROOT:-$(cd "$(dirname "${BASH_SOURCE[0]}")/.." && pwd)}"
export GO126="${GO126:-go1.26.8}"
