#!/bin/bash
# One-time setup after a fresh restore, offline: generate the runtime overlay and warm the build cache.
. "$(dirname "${BASH_SOURCE[0]}")/env.sh"
"$VERIF_ROOT/scripts/build.sh" || exit 2
"$VERIF_ROOT/scripts/build.sh" race || exit 2
echo setup ok
