#!/usr/bin/env python3
"""mkmutant.py <name> <props> <description> <file> <old> <new> [<file> <old> <new> ...]
Creates mutants/<name>.patch by textual replacement on a scratch copy of /repo (old must occur exactly once)."""
import os, subprocess, sys, tempfile, shutil
name, props, desc = sys.argv[1:4]
triples = sys.argv[4:]
tmp = tempfile.mkdtemp(prefix='mk-')
try:
    diffs = []
    for i in range(0, len(triples), 3):
        f, old, new = triples[i:i+3]
        src = open(os.path.join('/repo', f)).read()
        assert src.count(old) == 1, (f, src.count(old))
        dst = os.path.join(tmp, f)
        os.makedirs(os.path.dirname(dst), exist_ok=True)
        open(dst, 'w').write(src.replace(old, new))
        d = subprocess.run(['diff', '-u', os.path.join('/repo', f), dst], capture_output=True, text=True).stdout
        d = d.replace('--- /repo/' + f, '--- a/' + f).replace('+++ ' + dst, '+++ b/' + f)
        diffs.append(d)
    open(f'/verif/mutants/{name}.patch', 'w').write(''.join(diffs))
    lines = [l for l in open('/verif/mutants/MAP.tsv') if not l.startswith(name + '.patch\t')]
    lines.append(f'{name}.patch\t{props}\t{desc}\n')
    open('/verif/mutants/MAP.tsv', 'w').writelines(lines)
    print('wrote', name)
finally:
    shutil.rmtree(tmp)
