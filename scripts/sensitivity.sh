#!/bin/bash
# sensitivity.sh [pattern]   run every mutant of mutants/MAP.tsv (or those matching pattern) against its
# properties on scratch copies; 4 at a time. Output: one CAUGHT / SURVIVED / BROKEN line each.
. "$(dirname "${BASH_SOURCE[0]}")/env.sh"
cd "$VERIF_ROOT" || exit 2
pat="${1:-.}"
grep -E "$pat" mutants/MAP.tsv | while IFS=$'\t' read -r patch props desc; do
  for p in ${props//,/ }; do echo "$patch $p"; done
done | xargs -P 4 -L 1 bash -c 'if [ "${1%+reconn}" != "$1" ]; then DST_C05_RECONN=1 scripts/mutant.sh mutants/$0 ${1%+reconn} ${SENS_TIER:-quick} | sed "s#by C05/#by C05+reconn/#; s#vs C05/#vs C05+reconn/#"; else scripts/mutant.sh mutants/$0 $1 ${SENS_TIER:-quick}; fi'
