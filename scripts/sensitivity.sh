#!/bin/bash
# sensitivity.sh [pattern]   run every mutant of mutants/MAP.tsv (or those matching pattern) against its
# properties on scratch copies; 4 at a time. Output: one CAUGHT / SURVIVED / BROKEN line each.
. "$(dirname "${BASH_SOURCE[0]}")/env.sh"
cd "$VERIF_ROOT" || exit 2
pat="${1:-.}"
grep -E "$pat" mutants/MAP.tsv | while IFS=$'\t' read -r patch props desc; do
  for p in ${props//,/ }; do echo "$patch $p"; done
done | xargs -P 4 -L 1 bash -c 'scripts/mutant.sh mutants/$0 $1 ${SENS_TIER:-quick}'
