#!/bin/bash
# Rebuilds the simulator binary from /repo's current working tree.
#   build.sh [race]
# Exit 2 on any build trouble (never reported as a violation).
set -u
. "$(dirname "${BASH_SOURCE[0]}")/env.sh"
D="$VERIF_ROOT/dst"
GEN="$D/overlay/gen"
GOROOT126="$($GO126 env GOROOT)" || exit 2
mkdir -p "$GEN" "$D/bin"
stamp="$GEN/.stamp"
if [ ! -f "$stamp" ] || [ "$D/overlay/rand.diff" -nt "$stamp" ] || [ "$D/overlay/proc.diff" -nt "$stamp" ] || [ "$D/overlay/select.diff" -nt "$stamp" ] || [ "$D/overlay/alg.diff" -nt "$stamp" ] || [ "$D/overlay/time.diff" -nt "$stamp" ] || [ "$D/overlay/sema.diff" -nt "$stamp" ] || [ "$D/overlay/synctest.add" -nt "$stamp" ]; then
  for f in rand alg select proc time sema; do
    cp "$GOROOT126/src/runtime/$f.go" "$GEN/$f.go" || exit 2
    patch -s "$GEN/$f.go" < "$D/overlay/$f.diff" || { echo "overlay patch failed: $f" >&2; exit 2; }
  done
  cat "$GOROOT126/src/testing/synctest/synctest.go" "$D/overlay/synctest.add" > "$GEN/synctest.go" || exit 2
  cat > "$GEN/overlay.json" <<J
{"Replace":{
"$GOROOT126/src/runtime/rand.go":"$GEN/rand.go",
"$GOROOT126/src/runtime/alg.go":"$GEN/alg.go",
"$GOROOT126/src/runtime/select.go":"$GEN/select.go",
"$GOROOT126/src/runtime/proc.go":"$GEN/proc.go",
"$GOROOT126/src/runtime/time.go":"$GEN/time.go",
"$GOROOT126/src/runtime/sema.go":"$GEN/sema.go",
"$GOROOT126/src/testing/synctest/synctest.go":"$GEN/synctest.go"
}}
J
  touch "$stamp"
fi
cd "$D" || exit 2
# go.sum: the repository's sums plus the harness' own (porcupine, rapid), all from the module cache.
if [ ! -f go.sum ] || [ /repo/go.sum -nt go.sum ]; then
  cat /repo/go.sum "$D/go.sum.extra" 2>/dev/null | sort -u > go.sum
fi
out="${DST_BIN:-$D/bin/dst}"; flags=()
if [ "${1:-}" = race ]; then out="${DST_BIN:-$D/bin/dst}-race"; flags=(-race); fi
# DST_REPO builds against a scratch copy of the repository (sensitivity runs) instead of /repo itself.
if [ -n "${DST_REPO:-}" ] && [ "$DST_REPO" != /repo ]; then
  mf="$D/bin/go.$$.mod"
  sed "s#=> /repo\$#=> $DST_REPO#" go.mod > "$mf"; cp go.sum "$D/bin/go.$$.sum"
  flags+=(-modfile="$mf")
  trap 'rm -f "$D/bin/go.$$.mod" "$D/bin/go.$$.sum"' EXIT
fi
$GO126 build "${flags[@]}" -overlay "$GEN/overlay.json" -tags "sio_deadlock verif" -o "$out" ./cmd/dst 2>&1 || { echo "BUILD FAILED" >&2; exit 2; }
