#!/bin/bash
# mutant.sh <patch> <Cxx> [quick|thorough]   apply a property-breaking patch to /repo, run the check, undo.
# Prints "CAUGHT" (check exit 1) or "SURVIVED" (exit 0) or "BROKEN" (anything else). Never leaves /repo modified.
. "$(dirname "${BASH_SOURCE[0]}")/env.sh"
patch="$(realpath "$1")"; prop="$2"; tier="${3:-quick}"
if ! git -C /repo diff --quiet; then echo "refusing: /repo has uncommitted changes" >&2; exit 2; fi
git -C /repo apply "$patch" || { echo "BROKEN: patch does not apply: $patch"; exit 2; }
trap 'git -C /repo checkout -- . ; git -C /repo clean -fdq; rm -rf "$VERIF_OUT_DIR"' EXIT
export VERIF_OUT_DIR="$(mktemp -d)"
out=$("$VERIF_ROOT/scripts/check.sh" "$prop" "$tier" 2>&1); rc=$?
if [ $rc -eq 1 ]; then echo "CAUGHT $(basename "$patch") by $prop/$tier: $(echo "$out" | grep -A1 '^VIOLATION' | head -2 | tr '\n' ' ' | cut -c1-300)"
elif [ $rc -eq 0 ]; then echo "SURVIVED $(basename "$patch") vs $prop/$tier"
else echo "BROKEN $(basename "$patch") vs $prop/$tier rc=$rc: $(echo "$out" | tail -3 | tr '\n' ' ' | cut -c1-400)"; fi
exit 0
