#!/bin/bash
# mutant.sh <patch> <Cxx> [quick|thorough]   apply a property-breaking patch to a SCRATCH COPY of /repo
# (never /repo itself), run the check against that copy, delete the copy.
# Prints CAUGHT (check exit 1), SURVIVED (exit 0) or BROKEN (anything else).
. "$(dirname "${BASH_SOURCE[0]}")/env.sh"
patch="$(realpath "$1")"; prop="$2"; tier="${3:-quick}"
scratch="$(mktemp -d /tmp/sio-mut-XXXXXX)"
export VERIF_OUT_DIR="$scratch/out"; mkdir -p "$VERIF_OUT_DIR"
trap 'rm -rf "$scratch" "$VERIF_ROOT/dst/bin/dst-mut-$$" "$VERIF_ROOT/dst/bin/dst-mut-$$-race"' EXIT
rsync -a --exclude .git /repo/ "$scratch/repo/" || exit 2
(cd "$scratch/repo" && patch -s -p1 < "$patch") || { echo "BROKEN: patch does not apply: $patch"; exit 0; }
export DST_REPO="$scratch/repo" DST_BIN="$VERIF_ROOT/dst/bin/dst-mut-$$"
out=$("$VERIF_ROOT/scripts/check.sh" "$prop" "$tier" 2>&1); rc=$?
if [ $rc -eq 1 ]; then echo "CAUGHT $(basename "$patch") by $prop/$tier: $(echo "$out" | grep -A1 '^VIOLATION' | head -2 | tr '\n' ' ' | sed "s#$scratch##g" | cut -c1-260)"
elif [ $rc -eq 0 ]; then echo "SURVIVED $(basename "$patch") vs $prop/$tier"
else echo "BROKEN $(basename "$patch") vs $prop/$tier rc=$rc: $(echo "$out" | tail -3 | tr '\n' ' ' | cut -c1-400)"; fi
exit 0
