#!/bin/bash
# seedsweep.sh "<props>" "<seeds>" [tier]   run the checks over several VERIF_SEED values; print what is not clean
# evidence and replays go to a scratch directory (VERIF_OUT_DIR) so that committed evidence is not overwritten
cd "$(dirname "$0")/.."
props=${1:-"C01 C02 C03 C04 C05 C06 C07 C08 C10 C11 C12 C13 C14 C15 C16 C17 C18 C19"}
seeds=${2:-"1 2 3 4 5"}
tier=${3:-quick}
out=${SWEEP_OUT:-/tmp/sweep_out}
mkdir -p $out
for p in $props; do
  for s in $seeds; do
    VERIF_OUT_DIR=$out VERIF_SEED=$s scripts/check.sh $p $tier > $out/$p-$s.log 2>&1
    rc=$?
    tail -1 $out/$p-$s.log | sed "s/^/[$p seed=$s rc=$rc] /"
    if [ $rc -ne 0 ]; then grep -A2 "^VIOLATION" $out/$p-$s.log | cut -c1-300; fi
  done
done
