#!/usr/bin/env python3
"""gen_design_tables.py [sensitivity-result-file]
Rewrites the generated tables of DESIGN.md (between <!-- BEGIN:x --> / <!-- END:x --> markers):
  fixes    from known_findings.json (+ commit subjects from /repo)
  mutants  from mutants/MAP.tsv (+ CAUGHT/SURVIVED lines of a sensitivity run, if given)
  seeded   from seeded/*/meta.json
"""
import json, os, re, subprocess, sys, glob

ROOT = os.path.dirname(os.path.dirname(os.path.abspath(__file__)))

def subj(h):
    try:
        return subprocess.check_output(['git', '-C', '/repo', 'log', '--format=%s', '-1', h], text=True, stderr=subprocess.DEVNULL).strip()
    except Exception:
        return '?'

def esc(s):
    return s.replace('|', '\\|').replace('\n', ' ')

def fixes():
    d = json.load(open(os.path.join(ROOT, 'known_findings.json')))
    out = ['| Property | Commit | Repair (commit subject) | Failing input / schedule / history | Violation class |', '|---|---|---|---|---|']
    for f in d['findings']:
        if f.get('status') != 'fixed':
            continue
        out.append('| %s | `%s` | %s | %s | `%s` |' % (f['property'], f['commit'], esc(subj(f['commit'])[5:]), esc(f['what']), f['class']))
    known = [f for f in d['findings'] if f.get('status') == 'known']
    out.append('')
    out.append('Known findings recorded instead of repaired: %d.' % len(known))
    for f in known:
        out.append('- %s `%s` `%s`: %s' % (f['property'], f['class'], f['sig'], f['what']))
    return '\n'.join(out)

def mutants(resfile):
    res = {}
    if resfile and os.path.exists(resfile):
        for ln in open(resfile):
            m = re.match(r'(CAUGHT|SURVIVED) (\S+) (?:by|vs) (C\d\d)/(\w+)(?:: .*class=(\S+))?', ln)
            if m:
                res[(m.group(2), m.group(3))] = (m.group(1), m.group(5) or '')
            m = re.match(r'BROKEN', ln)
            if m:
                res[('BROKEN', ln.strip())] = ('BROKEN', '')
    out = ['| Mutant | Property | What it changes | Quick tier (VERIF_SEED=1) |', '|---|---|---|---|']
    for ln in open(os.path.join(ROOT, 'mutants', 'MAP.tsv')):
        ln = ln.rstrip('\n')
        if not ln:
            continue
        patch, props, desc = ln.split('\t')
        for p in props.split(','):
            r = res.get((patch, p))
            verdict = '-' if r is None else (r[0] + (' `' + r[1] + '`' if r[1] else ''))
            out.append('| `%s` | %s | %s | %s |' % (patch.replace('.patch', ''), p, esc(desc), verdict))
    return '\n'.join(out)

def seeded():
    out = ['| Property | Files | Change | Needs | Caught by | Violation | History |', '|---|---|---|---|---|---|---|']
    for d in sorted(glob.glob(os.path.join(ROOT, 'seeded', 'C*'))):
        m = json.load(open(os.path.join(d, 'meta.json')))
        out.append('| %s | %s | %s | %s | %s | %s | %s |' % (os.path.basename(d), esc(', '.join(m.get('files', []))), esc(m.get('summary', '')), esc(m.get('needs', '')), m.get('caught_by', '-'), esc(m.get('violation', '')), esc(m.get('history', ''))))
    return '\n'.join(out)

def main():
    resfile = sys.argv[1] if len(sys.argv) > 1 else None
    p = os.path.join(ROOT, 'DESIGN.md')
    s = open(p).read()
    for name, text in (('fixes', fixes()), ('mutants', mutants(resfile)), ('seeded', seeded())):
        b, e = '<!-- BEGIN:%s -->' % name, '<!-- END:%s -->' % name
        if b in s and e in s:
            s = s[:s.index(b) + len(b)] + '\n' + text + '\n' + s[s.index(e):]
    open(p, 'w').write(s)

main()
