#!/usr/bin/env python3
"""regfix.py <commit> <Cxx[,Cyy]> <class> <sig> <what>   record a fix: reverse patch as mutant, MAP entry, known_findings 'fixed' entry."""
import json, subprocess, sys
h, props, cls, sig, what = sys.argv[1:6]
h = subprocess.check_output(['git','-C','/repo','log','--format=%h','-1',h],text=True).strip()
subj = subprocess.check_output(['git','-C','/repo','log','--format=%s','-1',h],text=True).strip()
assert subj.startswith('fix:'), subj
open(f'/verif/mutants/revert-{h}.patch','w').write(subprocess.check_output(['git','-C','/repo','diff',h,h+'^'],text=True))
with open('/verif/mutants/MAP.tsv','a') as f:
    f.write(f'revert-{h}.patch\t{props}\trevert: {subj[5:]}\n')
p='/verif/known_findings.json'; d=json.load(open(p))
d['findings'].append({"property":props.split(',')[0],"class":cls,"sig":sig,"status":"fixed","commit":h,"what":what})
json.dump(d,open(p,'w'),indent=1)
print('registered', h, subj)
