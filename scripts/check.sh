#!/bin/bash
# check.sh <Cxx> quick|thorough        run a property check (rebuilds from /repo's working tree)
# check.sh --replay <file>             replay a minimised plan
# Exit: 0 held on everything explored (KNOWN-FINDING lines possible), 1 violation, 2 infrastructure trouble.
. "$(dirname "${BASH_SOURCE[0]}")/env.sh"
cd "$VERIF_ROOT" || exit 2
"$VERIF_ROOT/scripts/build.sh" || exit 2
BIN="${DST_BIN:-$VERIF_ROOT/dst/bin/dst}"
if [ "${1:-}" = "--replay" ]; then
  if grep -q '"prop": *"C16"' "$2" 2>/dev/null; then "$VERIF_ROOT/scripts/build.sh" race || exit 2; fi
  exec "$BIN" replay "$2"
fi
prop="$1"; tier="${2:-quick}"
if [ "$prop" = C16 ]; then "$VERIF_ROOT/scripts/build.sh" race || exit 2; fi
exec "$BIN" check -prop "$prop" -tier "$tier"
