// Command dst is both the supervisor and the worker of the deterministic
// simulation harness.
//
//	dst check  -prop C19 -tier quick|thorough      run a check, write evidence, exit 0/1/2
//	dst replay <file>                               replay a minimised plan; exit 1 + VIOLATION line when it reproduces
//	dst one    -prop C19 -seed 1 -idx 7 [-hist]     run one generated plan in-process (debugging)
//	dst selftest -prop C19 -n 40                    determinism self-test (N plans x fresh processes x worker counts)
//	dst worker ...                                  (internal) run a range of plans, one JSON result per line
package main

import (
	"bufio"
	"encoding/json"
	"flag"
	"fmt"
	"os"
	"runtime"
	"runtime/debug"
	"strconv"
	"time"

	"verif/dst/props"
	"verif/dst/sim"
)

func main() {
	if len(os.Args) < 2 {
		fmt.Fprintln(os.Stderr, "usage: dst check|replay|one|selftest|worker ...")
		os.Exit(2)
	}
	switch os.Args[1] {
	case "worker":
		workerMain(os.Args[2:])
	case "check":
		os.Exit(checkMain(os.Args[2:]))
	case "replay":
		os.Exit(replayMain(os.Args[2:]))
	case "one":
		oneMain(os.Args[2:])
	case "selftest":
		os.Exit(selftestMain(os.Args[2:]))
	case "enum":
		enumMain(os.Args[2:])
	default:
		fmt.Fprintln(os.Stderr, "unknown subcommand", os.Args[1])
		os.Exit(2)
	}
}

func pinRuntime() {
	// One P: the Go run queue is then FIFO and repeatable. The supervisor sets
	// GOMAXPROCS=1 GODEBUG=asyncpreemptoff=1 GOGC=off in the worker's environment;
	// this is the belt to those braces.
	runtime.GOMAXPROCS(1)
	debug.SetGCPercent(-1)
	debug.SetMemoryLimit(6 << 30)
}

func envSeed() uint64 {
	if s := os.Getenv("VERIF_SEED"); s != "" {
		if v, err := strconv.ParseUint(s, 10, 64); err == nil {
			return v
		}
		if v, err := strconv.ParseInt(s, 10, 64); err == nil {
			return uint64(v)
		}
	}
	return 1
}

// runPlan executes the plan twice in this (fresh) process and reports the second execution.
// The first is a dry run whose only purpose is to bring every lazily initialised piece of process
// state the plan touches (encoding/json and reflect type caches, sync.Map roots, package-level
// once-initialisers: each of them draws from the simulated random stream when it first runs inside
// the bubble) into the same warm state whatever happened in the process before - generating the plan
// or loading it from a replay file. sync.Pools are emptied by the two collections in between.
func runPlan(pr *props.Property, p *sim.Plan, hist bool, multiP bool) *sim.Result {
	if !multiP && os.Getenv("DST_NO_DRYRUN") == "" {
		sim.Run(p.Clone(), sim.RunOpts{}, pr.Run)
		quiesce()
	}
	if raceEnabled {
		raceLogReset()
	}
	res := sim.Run(p.Clone(), sim.RunOpts{KeepHistory: hist, MultiP: multiP}, pr.Run)
	if raceEnabled {
		// (the reports are part of the run's verdict, not of its history digest)
		res.Violations = append(res.Violations, raceViolations(p.Prop)...)
	}
	return res
}

// workerMain: prints "S <idx>" before each run and "R <json>" after it.
func workerMain(args []string) {
	fs := flag.NewFlagSet("worker", flag.ExitOnError)
	prop := fs.String("prop", "", "")
	tier := fs.String("tier", "quick", "")
	seed := fs.Uint64("seed", 1, "")
	from := fs.Int("from", 0, "")
	to := fs.Int("to", 0, "")
	planFile := fs.String("plan", "", "")
	hist := fs.Bool("hist", false, "")
	multiP := fs.Bool("multip", false, "")
	fixed := fs.Bool("fixed", false, "run the property's fixed (enumerated) plans [from,to)")
	fs.Parse(args)
	if !*multiP {
		pinRuntime()
	}
	pr := props.All[*prop]
	out := bufio.NewWriterSize(os.Stdout, 1<<20)
	defer out.Flush()
	emit := func(r *sim.Result) {
		b, _ := json.Marshal(r)
		out.WriteString("R ")
		out.Write(b)
		out.WriteString("\n")
		out.Flush()
	}
	if *planFile != "" {
		p, err := sim.LoadPlan(*planFile)
		if err != nil {
			fmt.Fprintln(os.Stderr, err)
			os.Exit(2)
		}
		pr = props.All[p.Prop]
		if pr == nil {
			fmt.Fprintln(os.Stderr, "unknown property", p.Prop)
			os.Exit(2)
		}
		fmt.Fprintf(out, "S %d\n", p.Index)
		out.Flush()
		emit(runPlan(pr, p, *hist, *multiP))
		return
	}
	if pr == nil {
		fmt.Fprintln(os.Stderr, "unknown property", *prop)
		os.Exit(2)
	}
	var fixedPlans []*sim.Plan
	if *fixed {
		fixedPlans = pr.Fixed(*tier, *seed)
	}
	for i := *from; i < *to; i++ {
		var p *sim.Plan
		if *fixed {
			if i >= len(fixedPlans) {
				break
			}
			p = fixedPlans[i]
		} else {
			p = props.PlanFor(pr, *tier, *seed, i)
		}
		fmt.Fprintf(out, "S %d\n", i)
		out.Flush()
		emit(runPlan(pr, p, *hist, *multiP))
	}
}

func oneMain(args []string) {
	fs := flag.NewFlagSet("one", flag.ExitOnError)
	prop := fs.String("prop", "", "")
	tier := fs.String("tier", "quick", "")
	seed := fs.Uint64("seed", envSeed(), "")
	idx := fs.Int("idx", 0, "")
	hist := fs.Bool("hist", false, "")
	planFile := fs.String("plan", "", "")
	dump := fs.Bool("dumpplan", false, "")
	fs.Parse(args)
	pinRuntime()
	var p *sim.Plan
	var pr *props.Property
	if *planFile != "" {
		var err error
		p, err = sim.LoadPlan(*planFile)
		if err != nil {
			fmt.Fprintln(os.Stderr, err)
			os.Exit(2)
		}
		pr = props.All[p.Prop]
	} else {
		pr = props.All[*prop]
		if pr == nil {
			fmt.Fprintln(os.Stderr, "unknown property", *prop)
			os.Exit(2)
		}
		p = props.PlanFor(pr, *tier, *seed, *idx)
	}
	if *dump {
		b, _ := json.MarshalIndent(p, "", " ")
		fmt.Println(string(b))
	}
	r := runPlan(pr, p, *hist, false)
	for _, h := range r.History {
		fmt.Println(h)
	}
	r.History = nil
	b, _ := json.MarshalIndent(r, "", " ")
	fmt.Println(string(b))
}

func enumMain(args []string) {
	fs := flag.NewFlagSet("enum", flag.ExitOnError)
	prop := fs.String("prop", "", "")
	tier := fs.String("tier", "quick", "")
	seed := fs.Uint64("seed", 1, "")
	fs.Parse(args)
	pr := props.All[*prop]
	if pr == nil || pr.Enum == nil {
		fmt.Println("E []")
		return
	}
	res := pr.Enum(*tier, *seed)
	type wire struct {
		props.EnumResult
		V []sim.Violation `json:"violations"`
	}
	var w []wire
	for _, r := range res {
		w = append(w, wire{r, r.Violations})
	}
	b, _ := json.Marshal(w)
	fmt.Println("E " + string(b))
}

// quiesce empties the sync.Pools and lets the runtime's background work that the dry run left
// behind come to rest before the run that counts: the finalizers of its garbage run on the
// finalizer goroutine, which takes scheduling slots (and locks of process-global registries) at
// moments that depend on real time. A sentinel's finalizer tells when the queue has been worked off.
func quiesce() {
	type sentinel struct {
		p *int
		_ [48]byte
	}
	for i := 0; i < 2; i++ {
		runtime.GC()
		done := make(chan struct{})
		s := &sentinel{p: new(int)}
		runtime.SetFinalizer(s, func(*sentinel) { close(done) })
		s = nil
		runtime.GC()
		select {
		case <-done:
		case <-time.After(2 * time.Second):
		}
	}
	time.Sleep(2 * time.Millisecond)
}
