package main

import (
	"bufio"
	"bytes"
	"encoding/json"
	"flag"
	"fmt"
	"os"
	"os/exec"
	"path/filepath"
	"sort"
	"strconv"
	"strings"
	"sync"
	"time"

	"verif/dst/props"
	"verif/dst/sim"
)

// outRoot is where evidence and replay files go (VERIF_OUT_DIR redirects them, used by the
// mutant runner so that sensitivity runs never overwrite the evidence of the real tree).
func outRoot() string {
	if r := os.Getenv("VERIF_OUT_DIR"); r != "" {
		return r
	}
	return verifRoot()
}

func verifRoot() string {
	if r := os.Getenv("VERIF_ROOT"); r != "" {
		return r
	}
	return "/verif"
}

// useRaceWorker: the property asks for the race-detector build of the worker (C16).
var useRaceWorker bool

// raceForArgs: plans of a Race property whose mode is "locks" run on the ordinary build (instrumented
// mutex registries on, race detector off); all others on the race build. The mode of a plan is a pure
// function of (property, tier, seed, index), or is read from the plan file.
func raceForArgs(args []string) bool {
	get := func(k string) string {
		for i := 0; i+1 < len(args); i++ {
			if args[i] == k {
				return args[i+1]
			}
		}
		return ""
	}
	if pf := get("-plan"); pf != "" {
		if p, err := sim.LoadPlan(pf); err == nil {
			return p.Mode != "locks"
		}
		return true
	}
	pr := props.All[get("-prop")]
	if pr == nil {
		return true
	}
	seed, _ := strconv.ParseUint(get("-seed"), 10, 64)
	idx, _ := strconv.Atoi(get("-from"))
	return props.PlanFor(pr, get("-tier"), seed, idx).Mode != "locks"
}

func raceLogDir() string { return fmt.Sprintf("%s/dst-race-%d", os.TempDir(), os.Getpid()) }

func workerEnv(multiP bool) []string {
	env := os.Environ()
	if !multiP {
		env = append(env, "GOMAXPROCS=1", "GODEBUG=asyncpreemptoff=1", "GOGC=off")
	}
	return env
}

type runOutcome struct {
	idx     int
	res     *sim.Result
	crashed bool
	stderr  string
	hung    bool
}

// runWorker runs `dst worker args...` and streams outcomes. It returns the
// index at which the process died (or -1) so that the caller can resume.
func runWorker(args []string, multiP bool, perRun time.Duration, each func(o runOutcome)) (diedAt int, done bool) {
	exe, _ := os.Executable()
	cmd := exec.Command(exe, append([]string{"worker"}, args...)...)
	cmd.Env = workerEnv(multiP)
	if useRaceWorker && raceForArgs(args) {
		// the race-detector build of the same program; its reports go to a file the worker reads back
		cmd = exec.Command(strings.TrimSuffix(exe, "-race")+"-race", append([]string{"worker"}, args...)...)
		os.MkdirAll(raceLogDir(), 0o755)
		cmd.Env = append(workerEnv(multiP), "GORACE=halt_on_error=0 exitcode=0 log_path="+raceLogDir()+"/r")
	}
	var stderr bytes.Buffer
	cmd.Stderr = &limitedBuf{max: 64 << 10, b: &stderr}
	stdout, err := cmd.StdoutPipe()
	if err != nil {
		fmt.Fprintln(os.Stderr, "pipe:", err)
		os.Exit(2)
	}
	if err := cmd.Start(); err != nil {
		fmt.Fprintln(os.Stderr, "start worker:", err)
		os.Exit(2)
	}
	lines := make(chan string, 16)
	go func() {
		sc := bufio.NewScanner(stdout)
		sc.Buffer(make([]byte, 1<<20), 256<<20)
		for sc.Scan() {
			lines <- sc.Text()
		}
		close(lines)
	}()
	cur := -1
	timer := time.NewTimer(perRun)
	defer timer.Stop()
	for {
		select {
		case ln, ok := <-lines:
			if !ok {
				err := cmd.Wait()
				if cur >= 0 {
					each(runOutcome{idx: cur, crashed: true, stderr: tail(stderr.String(), 6000)})
					return cur, false
				}
				if err != nil {
					fmt.Fprintf(os.Stderr, "worker failed outside a run: %v\n%s\n", err, tail(stderr.String(), 3000))
					os.Exit(2)
				}
				return -1, true
			}
			if !timer.Stop() {
				select {
				case <-timer.C:
				default:
				}
			}
			timer.Reset(perRun)
			switch {
			case strings.HasPrefix(ln, "S "):
				cur, _ = strconv.Atoi(ln[2:])
			case strings.HasPrefix(ln, "R "):
				var r sim.Result
				if err := json.Unmarshal([]byte(ln[2:]), &r); err != nil {
					fmt.Fprintln(os.Stderr, "bad worker line:", err)
					os.Exit(2)
				}
				each(runOutcome{idx: cur, res: &r})
				cur = -1
			}
		case <-timer.C:
			// wall-clock watchdog
			cmd.Process.Signal(os.Interrupt)
			time.Sleep(200 * time.Millisecond)
			cmd.Process.Kill()
			cmd.Wait()
			each(runOutcome{idx: cur, hung: true, stderr: tail(stderr.String(), 6000)})
			return cur, false
		}
	}
}

type limitedBuf struct {
	max int
	b   *bytes.Buffer
}

func (l *limitedBuf) Write(p []byte) (int, error) {
	l.b.Write(p)
	if l.b.Len() > 2*l.max {
		b := l.b.Bytes()
		keep := append([]byte(nil), b[len(b)-l.max:]...)
		l.b.Reset()
		l.b.Write(keep)
	}
	return len(p), nil
}

func tail(s string, n int) string {
	if len(s) > n {
		return "..." + s[len(s)-n:]
	}
	return s
}

// runPlanFile executes one plan in a fresh process.
func runPlanFile(p *sim.Plan, hist bool, multiP bool) runOutcome {
	f, err := os.CreateTemp("", "dstplan-*.json")
	if err != nil {
		fmt.Fprintln(os.Stderr, err)
		os.Exit(2)
	}
	name := f.Name()
	f.Close()
	defer os.Remove(name)
	if err := p.Save(name); err != nil {
		fmt.Fprintln(os.Stderr, err)
		os.Exit(2)
	}
	args := []string{"-plan", name}
	if hist {
		args = append(args, "-hist")
	}
	if multiP {
		args = append(args, "-multip")
	}
	var out runOutcome
	runWorker(args, multiP, 180*time.Second, func(o runOutcome) { out = o })
	out.idx = p.Index
	return out
}

// ---------------------------------------------------------------------------
// known findings

type Finding struct {
	Property    string `json:"property"`
	Class       string `json:"class"`
	Sig         string `json:"sig"`
	Status      string `json:"status"` // known | fixed
	Commit      string `json:"commit,omitempty"`
	What        string `json:"what"`
	Description string `json:"description,omitempty"`
}

func loadFindings() []Finding {
	b, err := os.ReadFile(filepath.Join(verifRoot(), "known_findings.json"))
	if err != nil {
		return nil
	}
	var f struct {
		Findings []Finding `json:"findings"`
	}
	if err := json.Unmarshal(b, &f); err != nil {
		fmt.Fprintln(os.Stderr, "known_findings.json:", err)
		os.Exit(2)
	}
	return f.Findings
}

func matchFinding(fs []Finding, prop string, v sim.Violation) *Finding {
	for i := range fs {
		f := &fs[i]
		if f.Status == "known" && f.Property == prop && f.Class == v.Class && f.Sig == v.Sig {
			return f
		}
	}
	return nil
}

// ---------------------------------------------------------------------------
// check

type agg struct {
	mu          sync.Mutex
	runs        int
	nontrivial  int
	simNs       int64
	yields      int64
	stalls      int64
	stallNs     int64
	events      int64
	ops         int64
	checks      int64
	inconcl     int64
	faults      map[string]int
	probes      map[string]int
	modes       map[string]int
	digests     map[string]bool
	shapes      map[string]bool
	scheds      map[string]bool
	ntDistinct  map[string]bool
	sitesMax    int
	samples     []any
	viol        []foundViolation
	known       map[string]int
	knownWhat   map[string]string
	infra       []string
	wallUs      int64
	sampleEvery int
	byIdx       map[int]string
}

type foundViolation struct {
	idx   int
	fixed bool
	v     sim.Violation
	crash bool
}

func newAgg() *agg {
	return &agg{faults: map[string]int{}, probes: map[string]int{}, modes: map[string]int{}, digests: map[string]bool{},
		shapes: map[string]bool{}, scheds: map[string]bool{}, ntDistinct: map[string]bool{}, known: map[string]int{}, knownWhat: map[string]string{}, byIdx: map[int]string{}}
}

func (a *agg) add(prop string, findings []Finding, o runOutcome, fixed bool) {
	a.mu.Lock()
	defer a.mu.Unlock()
	a.runs++
	if o.crashed || o.hung {
		cls := prop + "/process-crash"
		if o.hung {
			cls = prop + "/wall-clock-hang"
		}
		v := sim.Violation{Class: cls, Sig: crashSig(o.stderr), Detail: o.stderr}
		if f := matchFinding(findings, prop, v); f != nil {
			a.known[f.Class+"|"+f.Sig]++
			a.knownWhat[f.Class+"|"+f.Sig] = f.What
			return
		}
		a.viol = append(a.viol, foundViolation{idx: o.idx, fixed: fixed, v: v, crash: true})
		return
	}
	r := o.res
	if r.Infra != "" {
		a.infra = append(a.infra, fmt.Sprintf("%s: %s", r.ID, r.Infra))
	}
	s := r.Stats
	a.simNs += s.SimNs
	a.yields += int64(s.Yields)
	a.stalls += int64(s.Stalls)
	a.stallNs += s.StallNs
	a.events += int64(s.Events)
	a.ops += int64(s.OpsRun)
	a.checks += int64(s.Checks)
	a.inconcl += int64(s.Inconclusive)
	a.wallUs += s.WallUs
	if s.Sites > a.sitesMax {
		a.sitesMax = s.Sites
	}
	for k, v := range s.Faults {
		a.faults[k] += v
	}
	for k, v := range s.Probes {
		a.probes[k] += v
	}
	a.modes[r.Mode]++
	a.digests[r.Digest] = true
	if !fixed {
		a.byIdx[o.idx] = r.Digest
	}
	a.shapes[r.ShapeDigest+"/"+r.SchedDigest] = true
	a.scheds[r.SchedDigest] = true
	if r.NonTrivial {
		a.nontrivial++
		a.ntDistinct[r.Digest] = true
	}
	if r.Sample != nil && len(a.samples) < 6 && (a.runs%a.sampleEvery == 1 || a.sampleEvery == 1) {
		a.samples = append(a.samples, map[string]any{"plan": r.ID, "digest": r.Digest, "case": r.Sample, "sim_ns": s.SimNs, "yields": s.Yields, "stalls": s.Stalls, "faults": s.Faults})
	}
	for _, v := range r.Violations {
		if f := matchFinding(findings, prop, v); f != nil {
			a.known[f.Class+"|"+f.Sig]++
			a.knownWhat[f.Class+"|"+f.Sig] = f.What
			continue
		}
		a.viol = append(a.viol, foundViolation{idx: o.idx, fixed: fixed, v: v})
	}
}

// crashSig extracts a stable signature from a Go panic trace: the panic message
// plus the first frame inside the repository.
func crashSig(stderr string) string {
	msg := ""
	frame := ""
	lines := strings.Split(stderr, "\n")
	for i, ln := range lines {
		if msg == "" && (strings.HasPrefix(ln, "panic: ") || strings.HasPrefix(ln, "fatal error: ")) {
			msg = ln
			if len(msg) > 120 {
				msg = msg[:120]
			}
		}
		if msg != "" && frame == "" && strings.Contains(ln, "github.com/karagenc/socket.io-go") && !strings.HasPrefix(strings.TrimSpace(ln), "/") {
			fn := strings.TrimSpace(ln)
			if j := strings.LastIndex(fn, "("); j > 0 {
				fn = fn[:j]
			}
			frame = fn
			_ = i
		}
	}
	// strip volatile numbers (addresses, goroutine ids) from the message
	msg = stripHex(msg)
	return msg + " @ " + frame
}

func stripHex(s string) string {
	var b strings.Builder
	i := 0
	for i < len(s) {
		if strings.HasPrefix(s[i:], "0x") {
			b.WriteString("0x?")
			i += 2
			for i < len(s) && strings.ContainsRune("0123456789abcdef", rune(s[i])) {
				i++
			}
			continue
		}
		b.WriteByte(s[i])
		i++
	}
	return b.String()
}

func checkMain(args []string) int {
	fs := flag.NewFlagSet("check", flag.ExitOnError)
	prop := fs.String("prop", "", "")
	tier := fs.String("tier", "quick", "")
	seed := fs.Uint64("seed", envSeed(), "")
	workers := fs.Int("workers", 16, "")
	runsFlag := fs.Int("runs", 0, "")
	budget := fs.Duration("budget", 0, "wall-clock budget for the seeded search")
	noMin := fs.Bool("nomin", false, "")
	fs.Parse(args)
	pr := props.All[*prop]
	if pr == nil {
		fmt.Fprintln(os.Stderr, "unknown property", *prop)
		return 2
	}
	useRaceWorker = pr.Race
	defer os.RemoveAll(raceLogDir())
	if t := os.Getenv("VERIF_TIER"); t == "quick" || t == "thorough" {
		*tier = t
	}
	start := time.Now()
	runs := pr.QuickRuns
	bud := 45 * time.Second
	if *tier == "thorough" {
		runs = pr.ThoroughRuns
		bud = 12 * time.Minute
	}
	if *runsFlag > 0 {
		runs = *runsFlag
	}
	if s := os.Getenv("VERIF_RUNS"); s != "" {
		if v, err := strconv.Atoi(s); err == nil {
			runs = v
		}
	}
	if *budget > 0 {
		bud = *budget
	}
	if s := os.Getenv("VERIF_BUDGET_S"); s != "" {
		if v, err := strconv.Atoi(s); err == nil {
			bud = time.Duration(v) * time.Second
		}
	}
	findings := loadFindings()
	fmt.Printf("dst check property=%s tier=%s VERIF_SEED=%d planned_runs=%d budget=%v workers=%d\n", pr.ID, *tier, *seed, runs, bud, *workers)

	a := newAgg()
	a.sampleEvery = runs/6 + 1

	// ---- fixed (enumerated) plans first, then the seeded search
	type chunk struct {
		from, to int
		fixed    bool
	}
	var chunks []chunk
	nFixed := 0
	if pr.Fixed != nil {
		nFixed = len(pr.Fixed(*tier, *seed))
		for i := 0; i < nFixed; i += 40 {
			chunks = append(chunks, chunk{i, min(i+40, nFixed), true})
		}
	}
	csize := 100
	if runs < 1600 {
		csize = runs/(*workers*2) + 1
	}
	for i := 0; i < runs; i += csize {
		chunks = append(chunks, chunk{i, min(i+csize, runs), false})
	}
	var wg sync.WaitGroup
	ch := make(chan chunk)
	deadline := start.Add(bud)
	skipped := 0
	var skipMu sync.Mutex
	for w := 0; w < *workers; w++ {
		wg.Add(1)
		go func() {
			defer wg.Done()
			for c := range ch {
				if time.Now().After(deadline) && !c.fixed {
					skipMu.Lock()
					skipped += c.to - c.from
					skipMu.Unlock()
					continue
				}
				// One process per run: every run starts from the same cold process state (type caches,
				// sync.Pools, finalizer queue, leaked goroutines of earlier bubbles), so a run inside a
				// batch is byte-for-byte the run a replay file reproduces. Costs ~4 ms per run.
				for idx := c.from; idx < c.to; idx++ {
					if time.Now().After(deadline) && !c.fixed {
						skipMu.Lock()
						skipped += c.to - idx
						skipMu.Unlock()
						break
					}
					args := []string{"-prop", pr.ID, "-tier", *tier, "-seed", fmt.Sprint(*seed), "-from", fmt.Sprint(idx), "-to", fmt.Sprint(idx + 1)}
					if c.fixed {
						args = append(args, "-fixed")
					}
					runWorker(args, false, 240*time.Second, func(o runOutcome) { a.add(pr.ID, findings, o, c.fixed) })
				}
			}
		}()
	}
	for _, c := range chunks {
		ch <- c
	}
	close(ch)
	wg.Wait()
	searchWall := time.Since(start)

	// ---- input enumeration side run (separate process: it may crash)
	var enums []props.EnumResult
	if pr.Enum != nil {
		enums = runEnum(pr, *tier, *seed, a, findings)
	}

	// ---- determinism spot check: re-run a sample of plans in fresh processes
	detPlans, detMismatch := 0, 0
	if len(a.infra) == 0 {
		n := 6
		if *tier == "thorough" {
			n = 24
		}
		detPlans, detMismatch = determinismSpot(pr, *tier, *seed, a.byIdx, n)
	}

	// ---- violations: confirm, minimise, write replay files
	exit := 0
	var reported []map[string]any
	if len(a.viol) > 0 {
		seen := map[string]bool{}
		sort.SliceStable(a.viol, func(i, j int) bool { return a.viol[i].idx < a.viol[j].idx })
		for _, fv := range a.viol {
			key := fv.v.Class + "|" + fv.v.Sig
			if seen[key] || len(seen) >= 4 {
				continue
			}
			seen[key] = true
			var plan *sim.Plan
			if fv.idx < 0 {
				// enumeration finding: no plan, the detail is the replay
				path := writeEnumReplay(pr.ID, *seed, fv.v)
				fmt.Printf("VIOLATION property=%s replay=%s\n", pr.ID, path)
				fmt.Printf("  class=%s sig=%s\n  %s\n", fv.v.Class, fv.v.Sig, tail(fv.v.Detail, 1500))
				reported = append(reported, map[string]any{"class": fv.v.Class, "sig": fv.v.Sig, "replay": path})
				exit = 1
				continue
			}
			if fv.fixed {
				plan = pr.Fixed(*tier, *seed)[fv.idx]
			} else {
				plan = props.PlanFor(pr, *tier, *seed, fv.idx)
			}
			path, ok := confirmAndMinimise(pr, plan, fv, *noMin)
			if !ok {
				a.infra = append(a.infra, fmt.Sprintf("violation %s of plan %s did not reproduce in a fresh process", key, plan.ID()))
				continue
			}
			fmt.Printf("VIOLATION property=%s replay=%s\n", pr.ID, path)
			fmt.Printf("  class=%s sig=%s\n  %s\n", fv.v.Class, fv.v.Sig, tail(fv.v.Detail, 1500))
			reported = append(reported, map[string]any{"class": fv.v.Class, "sig": fv.v.Sig, "replay": path})
			exit = 1
		}
	}
	keys := make([]string, 0, len(a.known))
	for k := range a.known {
		keys = append(keys, k)
	}
	sort.Strings(keys)
	for _, k := range keys {
		fmt.Printf("KNOWN-FINDING: property=%s %s (class|sig=%s, seen in %d runs)\n", pr.ID, a.knownWhat[k], k, a.known[k])
	}
	if detMismatch > 0 && !pr.Race {
		a.infra = append(a.infra, fmt.Sprintf("determinism: %d of %d re-executed plans produced a different history digest", detMismatch, detPlans))
	}
	if detMismatch > 0 && pr.Race {
		// The race-detector build keeps a residue of real-time dependence under heavy machine load (see
		// DESIGN.md): reported in the evidence, replays of this property are attempted several times.
		fmt.Printf("note: race build: %d of %d re-executed plans produced a different history digest\n", detMismatch, detPlans)
	}

	writeEvidence(pr, *tier, *seed, a, runs, skipped, nFixed, enums, detPlans, detMismatch, searchWall, time.Since(start), reported)

	if len(a.infra) > 0 {
		for _, s := range a.infra {
			fmt.Fprintln(os.Stderr, "INFRA:", tail(s, 2000))
		}
		if exit == 0 {
			return 2
		}
	}
	fmt.Printf("dst check property=%s done: runs=%d nontrivial=%d violations=%d known=%d wall=%.1fs sim=%s\n", pr.ID, a.runs, a.nontrivial, len(reported), len(a.known), time.Since(start).Seconds(), time.Duration(a.simNs))
	return exit
}

func runEnum(pr *props.Property, tier string, seed uint64, a *agg, findings []Finding) []props.EnumResult {
	exe, _ := os.Executable()
	cmd := exec.Command(exe, "enum", "-prop", pr.ID, "-tier", tier, "-seed", fmt.Sprint(seed))
	var stderr bytes.Buffer
	cmd.Stderr = &limitedBuf{max: 64 << 10, b: &stderr}
	out, err := cmd.Output()
	if err != nil {
		v := sim.Violation{Class: pr.ID + "/process-crash", Sig: "enum: " + crashSig(stderr.String()), Detail: tail(stderr.String(), 6000)}
		if f := matchFinding(findings, pr.ID, v); f != nil {
			a.known[f.Class+"|"+f.Sig]++
			a.knownWhat[f.Class+"|"+f.Sig] = f.What
		} else {
			a.viol = append(a.viol, foundViolation{idx: -1, v: v})
		}
		return nil
	}
	type wire struct {
		props.EnumResult
		V []sim.Violation `json:"violations"`
	}
	var w []wire
	for _, ln := range strings.Split(string(out), "\n") {
		if strings.HasPrefix(ln, "E ") {
			if err := json.Unmarshal([]byte(ln[2:]), &w); err != nil {
				fmt.Fprintln(os.Stderr, "enum output:", err)
				os.Exit(2)
			}
		}
	}
	var res []props.EnumResult
	for _, x := range w {
		res = append(res, x.EnumResult)
		for _, v := range x.V {
			if f := matchFinding(findings, pr.ID, v); f != nil {
				a.known[f.Class+"|"+f.Sig]++
				a.knownWhat[f.Class+"|"+f.Sig] = f.What
				continue
			}
			a.viol = append(a.viol, foundViolation{idx: -1, v: v})
		}
	}
	return res
}

func writeEnumReplay(prop string, seed uint64, v sim.Violation) string {
	dir := filepath.Join(outRoot(), "replays")
	os.MkdirAll(dir, 0o755)
	path := filepath.Join(dir, fmt.Sprintf("%s-%d-enum-%x.json", prop, seed, sim.HashStr(v.Class+v.Sig)&0xffffff))
	b, _ := json.MarshalIndent(map[string]any{"prop": prop, "kind": "input-enumeration", "expect": map[string]string{"class": v.Class, "sig": v.Sig, "detail": v.Detail}}, "", " ")
	os.WriteFile(path, b, 0o644)
	return path
}

// determinismSpot re-executes a sample of the plans of this check from a plan FILE in a fresh process
// (the replay path) and compares the history digest with the one the search itself observed.
func determinismSpot(pr *props.Property, tier string, seed uint64, observed map[int]string, n int) (plans, mismatches int) {
	if len(observed) == 0 {
		return 0, 0
	}
	idxAll := make([]int, 0, len(observed))
	for i := range observed {
		idxAll = append(idxAll, i)
	}
	sort.Ints(idxAll)
	r := sim.NewRand(seed).Fork("detspot")
	idxs := map[int]bool{}
	for len(idxs) < n && len(idxs) < len(idxAll) {
		idxs[idxAll[r.Intn(len(idxAll))]] = true
	}
	var mu sync.Mutex
	var wg sync.WaitGroup
	sem := make(chan struct{}, 16)
	for idx := range idxs {
		wg.Add(1)
		sem <- struct{}{}
		go func(idx int) {
			defer wg.Done()
			defer func() { <-sem }()
			p := props.PlanFor(pr, tier, seed, idx)
			o := runPlanFile(p, false, false)
			mu.Lock()
			plans++
			if o.res == nil || o.res.Digest != observed[idx] {
				mismatches++
				d := "CRASH"
				if o.res != nil {
					d = o.res.Digest
				}
				fmt.Fprintf(os.Stderr, "determinism mismatch: plan %s search=%s replay-path=%s\n", p.ID(), observed[idx], d)
			}
			mu.Unlock()
		}(idx)
	}
	wg.Wait()
	return
}

func hasViolation(o runOutcome, prop string, want sim.Violation, crash bool) bool {
	if crash {
		if !(o.crashed || o.hung) {
			return false
		}
		return crashSig(o.stderr) == want.Sig
	}
	if o.res == nil {
		return false
	}
	for _, v := range o.res.Violations {
		if v.Class == want.Class && v.Sig == want.Sig {
			return true
		}
	}
	return false
}

func confirmAndMinimise(pr *props.Property, plan *sim.Plan, fv foundViolation, noMin bool) (string, bool) {
	o := runPlanFile(plan, false, false)
	if !hasViolation(o, pr.ID, fv.v, fv.crash) {
		// try once more (a few times for the race build): a violation that does not reproduce is a simulator problem
		tries := 1
		if pr.Race {
			tries = 5
		}
		for t := 0; t < tries && !hasViolation(o, pr.ID, fv.v, fv.crash); t++ {
			o = runPlanFile(plan, false, false)
		}
		if !hasViolation(o, pr.ID, fv.v, fv.crash) {
			return "", false
		}
	}
	best := plan.Clone()
	if !noMin {
		best = minimise(pr, best, o, fv)
	}
	final := runPlanFile(best, true, false)
	if !hasViolation(final, pr.ID, fv.v, fv.crash) {
		best = plan.Clone()
		final = runPlanFile(best, true, false)
	}
	best.Expect = &sim.Expect{Class: fv.v.Class, Sig: fv.v.Sig}
	if final.res != nil {
		best.Expect.Digest = final.res.Digest
		for _, v := range final.res.Violations {
			if v.Class == fv.v.Class && v.Sig == fv.v.Sig {
				best.Expect.Detail = v.Detail
				break
			}
		}
	} else {
		best.Expect.Detail = tail(final.stderr, 4000)
	}
	dir := filepath.Join(outRoot(), "replays")
	os.MkdirAll(dir, 0o755)
	path := filepath.Join(dir, fmt.Sprintf("%s-%d-%d-%x.json", pr.ID, plan.VSeed, plan.Index, sim.HashStr(fv.v.Class+fv.v.Sig)&0xffff))
	if err := best.Save(path); err != nil {
		fmt.Fprintln(os.Stderr, err)
		os.Exit(2)
	}
	if final.res != nil && len(final.res.History) > 0 {
		os.WriteFile(strings.TrimSuffix(path, ".json")+".history.txt", []byte(strings.Join(final.res.History, "\n")+"\n"), 0o644)
	}
	return path, true
}

// minimise: delta debugging over ops, faults and (frozen) stalls, every
// candidate in a fresh process, while the same violation class+sig persists.
func minimise(pr *props.Property, plan *sim.Plan, first runOutcome, fv foundViolation) *sim.Plan {
	deadline := time.Now().Add(90 * time.Second)
	test := func(p *sim.Plan) bool {
		if time.Now().After(deadline) {
			return false
		}
		return hasViolation(runPlanFile(p, false, false), pr.ID, fv.v, fv.crash)
	}
	cur := plan.Clone()
	// freeze the stalls that fired into an explicit list
	if first.res != nil && !cur.Stall.UseExplicit {
		fz := cur.Clone()
		fz.Stall.UseExplicit = true
		fz.Stall.Explicit = first.res.Fired
		fz.Stall.RatePPM = 0
		fz.Stall.Tickets = nil
		if test(fz) {
			cur = fz
		}
	}
	type atom struct {
		kind string
		i    int
	}
	build := func(base *sim.Plan, keep []atom) *sim.Plan {
		q := base.Clone()
		q.Ops, q.Faults, q.Stall.Explicit = nil, nil, nil
		for _, a := range keep {
			switch a.kind {
			case "op":
				q.Ops = append(q.Ops, base.Ops[a.i])
			case "fault":
				q.Faults = append(q.Faults, base.Faults[a.i])
			case "stall":
				q.Stall.Explicit = append(q.Stall.Explicit, base.Stall.Explicit[a.i])
			}
		}
		return q
	}
	for pass := 0; pass < 2; pass++ {
		var atoms []atom
		for i := range cur.Ops {
			atoms = append(atoms, atom{"op", i})
		}
		for i := range cur.Faults {
			atoms = append(atoms, atom{"fault", i})
		}
		if cur.Stall.UseExplicit {
			for i := range cur.Stall.Explicit {
				atoms = append(atoms, atom{"stall", i})
			}
		}
		n := 2
		for len(atoms) >= 2 && time.Now().Before(deadline) {
			chunk := (len(atoms) + n - 1) / n
			// candidates: complements of each chunk, tested in parallel
			type cand struct {
				keep []atom
				ok   bool
			}
			var cands []*cand
			for s := 0; s < len(atoms); s += chunk {
				e := min(s+chunk, len(atoms))
				keep := append(append([]atom(nil), atoms[:s]...), atoms[e:]...)
				cands = append(cands, &cand{keep: keep})
			}
			var wg sync.WaitGroup
			sem := make(chan struct{}, 16)
			for _, c := range cands {
				wg.Add(1)
				sem <- struct{}{}
				go func(c *cand) {
					defer wg.Done()
					defer func() { <-sem }()
					c.ok = test(build(cur, c.keep))
				}(c)
			}
			wg.Wait()
			reduced := false
			for _, c := range cands {
				if c.ok {
					atoms = c.keep
					n = max(n-1, 2)
					reduced = true
					break
				}
			}
			if !reduced {
				if chunk == 1 {
					break
				}
				n = min(n*2, len(atoms))
			}
		}
		next := build(cur, atoms)
		if len(atoms) == 0 || test(next) {
			cur = next
		}
	}
	return cur
}

func replayMain(args []string) int {
	if len(args) < 1 {
		fmt.Fprintln(os.Stderr, "usage: dst replay <file>")
		return 2
	}
	b, err := os.ReadFile(args[0])
	if err != nil {
		fmt.Fprintln(os.Stderr, err)
		return 2
	}
	var probe struct {
		Kind string `json:"kind"`
		Prop string `json:"prop"`
	}
	json.Unmarshal(b, &probe)
	if probe.Kind == "input-enumeration" {
		return replayEnum(args[0], probe.Prop)
	}
	p, err := sim.LoadPlan(args[0])
	if err != nil {
		fmt.Fprintln(os.Stderr, err)
		return 2
	}
	pr := props.All[p.Prop]
	if pr == nil {
		fmt.Fprintln(os.Stderr, "unknown property", p.Prop)
		return 2
	}
	useRaceWorker = pr.Race
	defer os.RemoveAll(raceLogDir())
	o := runPlanFile(p, true, false)
	if pr.Race && p.Expect != nil {
		// (see the note on the race build's determinism in checkMain)
		want := sim.Violation{Class: p.Expect.Class, Sig: p.Expect.Sig}
		crash := strings.HasSuffix(p.Expect.Class, "/process-crash") || strings.HasSuffix(p.Expect.Class, "/wall-clock-hang")
		for try := 0; try < 5 && !hasViolation(o, p.Prop, want, crash); try++ {
			o = runPlanFile(p, true, false)
		}
	}
	if o.res != nil {
		for _, h := range o.res.History {
			fmt.Println(h)
		}
	}
	if p.Expect == nil {
		if o.crashed || o.hung || (o.res != nil && len(o.res.Violations) > 0) {
			fmt.Printf("VIOLATION property=%s replay=%s\n", p.Prop, args[0])
			return 1
		}
		return 0
	}
	want := sim.Violation{Class: p.Expect.Class, Sig: p.Expect.Sig}
	crash := strings.HasSuffix(p.Expect.Class, "/process-crash") || strings.HasSuffix(p.Expect.Class, "/wall-clock-hang")
	if hasViolation(o, p.Prop, want, crash) {
		same := o.res == nil || p.Expect.Digest == "" || o.res.Digest == p.Expect.Digest
		fmt.Printf("VIOLATION property=%s replay=%s\n", p.Prop, args[0])
		fmt.Printf("  class=%s sig=%s digest_match=%v\n", want.Class, want.Sig, same)
		if o.res != nil {
			for _, v := range o.res.Violations {
				fmt.Printf("  %s: %s\n", v.Class, tail(v.Detail, 1500))
			}
		} else {
			fmt.Println(tail(o.stderr, 3000))
		}
		return 1
	}
	fmt.Printf("replay %s: expected %s|%s did not occur\n", args[0], want.Class, want.Sig)
	return 0
}

func replayEnum(path, prop string) int {
	pr := props.All[prop]
	if pr == nil || pr.Enum == nil {
		return 2
	}
	b, _ := os.ReadFile(path)
	var f struct {
		Expect struct{ Class, Sig string } `json:"expect"`
	}
	json.Unmarshal(b, &f)
	a := newAgg()
	a.sampleEvery = 1
	runEnum(pr, "quick", 1, a, nil)
	for _, fv := range a.viol {
		if fv.v.Class == f.Expect.Class && fv.v.Sig == f.Expect.Sig {
			fmt.Printf("VIOLATION property=%s replay=%s\n  %s\n", prop, path, tail(fv.v.Detail, 1500))
			return 1
		}
	}
	fmt.Printf("replay %s: expected %s|%s did not occur\n", path, f.Expect.Class, f.Expect.Sig)
	return 0
}

// selftest: N plans, each in 3 fresh processes under 1, 4 and 16 concurrent
// workers, plus once inside a batch; all history digests must agree.
func selftestMain(args []string) int {
	fs := flag.NewFlagSet("selftest", flag.ExitOnError)
	prop := fs.String("prop", "", "comma separated, empty = all")
	n := fs.Int("n", 30, "")
	tier := fs.String("tier", "quick", "")
	seed := fs.Uint64("seed", envSeed(), "")
	fs.Parse(args)
	ids := props.IDs()
	if *prop != "" {
		ids = strings.Split(*prop, ",")
	}
	bad := 0
	total := 0
	for _, id := range ids {
		pr := props.All[id]
		if pr == nil {
			fmt.Fprintln(os.Stderr, "unknown property", id)
			return 2
		}
		// batch digests
		batch := map[int]string{}
		for i := 0; i < *n; i++ {
			runWorker([]string{"-prop", id, "-tier", *tier, "-seed", fmt.Sprint(*seed), "-from", fmt.Sprint(i), "-to", fmt.Sprint(i + 1)}, false, 240*time.Second, func(o runOutcome) {
				if o.res != nil {
					batch[o.idx] = o.res.Digest
				} else {
					batch[o.idx] = "CRASH"
				}
			})
		}
		for _, conc := range []int{1, 4, 16} {
			var wg sync.WaitGroup
			var mu sync.Mutex
			sem := make(chan struct{}, conc)
			for i := 0; i < *n; i++ {
				wg.Add(1)
				sem <- struct{}{}
				go func(i int) {
					defer wg.Done()
					defer func() { <-sem }()
					p := props.PlanFor(pr, *tier, *seed, i)
					o := runPlanFile(p, false, false)
					d := "CRASH"
					if o.res != nil {
						d = o.res.Digest
					}
					mu.Lock()
					total++
					if d != batch[i] {
						bad++
						fmt.Printf("MISMATCH %s idx=%d conc=%d: batch=%s fresh=%s\n", id, i, conc, batch[i], d)
					}
					mu.Unlock()
				}(i)
			}
			wg.Wait()
		}
		fmt.Printf("selftest %s: plans=%d executions=%d mismatches so far=%d\n", id, *n, total, bad)
	}
	if bad > 0 {
		return 2
	}
	return 0
}
