package main

import (
	"fmt"
	"os"
	"sort"
	"strings"

	"verif/dst/sim"
)

// The race detector writes its reports to GORACE's log_path + "." + pid. The worker reads them
// after the run and turns every report whose two conflicting accesses both lie in the repository's
// code into a violation of the property being checked (C16).

const repoPkg = "github.com/karagenc/socket.io-go"

func raceLogPath() string {
	for _, kv := range strings.Fields(os.Getenv("GORACE")) {
		if strings.HasPrefix(kv, "log_path=") {
			return fmt.Sprintf("%s.%d", strings.TrimPrefix(kv, "log_path="), os.Getpid())
		}
	}
	return ""
}

func raceLogReset() {
	if p := raceLogPath(); p != "" {
		os.Truncate(p, 0)
	}
}

// raceViolations parses the log written so far.
func raceViolations(prop string) []sim.Violation {
	p := raceLogPath()
	if p == "" {
		return nil
	}
	b, err := os.ReadFile(p)
	if err != nil || len(b) == 0 {
		return nil
	}
	var out []sim.Violation
	seen := map[string]bool{}
	for _, block := range strings.Split(string(b), "==================") {
		if !strings.Contains(block, "WARNING: DATA RACE") {
			continue
		}
		// sections: the two accesses come first, then "Goroutine N (...) created at:" sections
		var accesses [][]string
		var cur []string
		inAccess := false
		for _, ln := range strings.Split(block, "\n") {
			t := strings.TrimSpace(ln)
			switch {
			case strings.HasPrefix(t, "Write at ") || strings.HasPrefix(t, "Read at ") || strings.HasPrefix(t, "Previous write at ") || strings.HasPrefix(t, "Previous read at ") ||
				strings.HasPrefix(t, "Atomic write at ") || strings.HasPrefix(t, "Atomic read at ") || strings.HasPrefix(t, "Previous atomic write at ") || strings.HasPrefix(t, "Previous atomic read at "):
				if inAccess {
					accesses = append(accesses, cur)
				}
				cur, inAccess = nil, true
			case strings.HasPrefix(t, "Goroutine ") || t == "":
				if inAccess {
					accesses = append(accesses, cur)
					cur, inAccess = nil, false
				}
			case inAccess && !strings.HasPrefix(t, "/") && strings.HasSuffix(t, ")"):
				// a function line (symbol names escape the dots of the last path element: socket%2eio-go)
				cur = append(cur, strings.ReplaceAll(t, "%2e", "."))
			}
		}
		if inAccess {
			accesses = append(accesses, cur)
		}
		if len(accesses) < 2 {
			continue
		}
		// The report counts when, for both accesses, the innermost frame that is neither the standard
		// library's nor a third-party dependency's belongs to the repository. If it belongs to the
		// harness (its handlers, its world, the lock shim), the race is the harness' own business: in
		// this build the harness shares its state without synchronisation on purpose (sim.RaceBuild).
		var tops []string
		for _, acc := range accesses[:2] {
			top := ""
			for _, fn := range acc {
				if strings.HasPrefix(fn, repoPkg) {
					top = strings.TrimPrefix(fn, repoPkg)
					break
				}
				if strings.HasPrefix(fn, "verif/dst/") || strings.HasPrefix(fn, "github.com/sasha-s/go-deadlock") || strings.HasPrefix(fn, "main.") {
					break
				}
			}
			tops = append(tops, top)
		}
		if tops[0] == "" || tops[1] == "" {
			continue
		}
		sort.Strings(tops)
		sig := tops[0] + " <-> " + tops[1]
		if seen[sig] {
			continue
		}
		seen[sig] = true
		detail := strings.TrimSpace(block)
		if len(detail) > 3500 {
			detail = detail[:3500] + " ..."
		}
		out = append(out, sim.Violation{Class: prop + "/data-race", Sig: sig, Detail: detail})
	}
	return out
}
