package main

import (
	"encoding/json"
	"fmt"
	"os"
	"path/filepath"
	"time"

	"verif/dst/props"
)

func writeEvidence(pr *props.Property, tier string, seed uint64, a *agg, planned, skipped, nFixed int, enums []props.EnumResult,
	detPlans, detMismatch int, searchWall, wall time.Duration, reported []map[string]any) {
	a.mu.Lock()
	defer a.mu.Unlock()
	perHour := 0.0
	if searchWall > 0 {
		perHour = float64(a.runs) / searchWall.Hours()
	}
	samples := a.samples
	if len(samples) == 0 {
		samples = []any{map[string]any{"note": "no run produced a sample"}}
	}
	enumTotal := 0
	for _, e := range enums {
		enumTotal += e.Cases
	}
	cov := map[string]any{
		"evaluations":         a.runs,
		"distinct_nontrivial": len(a.ntDistinct),
		"rule":                pr.Rule,
		"samples":             samples,
		"exhaustive":          false,

		"simulated_runs":               a.runs,
		"planned_runs":                 planned,
		"runs_skipped_by_wall_budget":  skipped,
		"fixed_enumerated_plans":       nFixed,
		"nontrivial_runs":              a.nontrivial,
		"runs_per_hour":                int64(perHour),
		"seeds":                        []uint64{seed},
		"simulated_time_s":             float64(a.simNs) / 1e9,
		"runs_by_mode":                 a.modes,
		"faults_fired_by_kind":         a.faults,
		"yield_points_hit":             a.yields,
		"yield_sites_max_per_run":      a.sitesMax,
		"stalls_fired":                 a.stalls,
		"stall_time_s":                 float64(a.stallNs) / 1e9,
		"history_events":               a.events,
		"api_operations":               a.ops,
		"oracle_checks":                a.checks,
		"inconclusive":                 a.inconcl,
		"reach_probes":                 a.probes,
		"distinct_history_digests":     len(a.digests),
		"distinct_interleavings":       len(a.shapes),
		"distinct_interleaving_rule":   "distinct (digest of fired (yield site, hit, ns) stall decisions, time-free delivery shape) pairs",
		"distinct_stall_schedules":     len(a.scheds),
		"determinism_spot_check":       map[string]any{"plans": detPlans, "mismatches": detMismatch, "how": "each sampled plan re-executed from a plan file in a fresh process (the replay path); history digest compared with the one the search observed"},
		"input_enumeration":            enums,
		"input_enumeration_cases":      enumTotal,
		"input_enumeration_note":       "pure-input side runs: no schedule, clock or fault in them; not counted as simulated runs",
		"components_real":              pr.Real,
		"components_stub_or_simulated": pr.Stub,
		"known_findings_seen":          a.known,
		"violations_reported":          reported,
		"infra_problems":               a.infra,
	}
	ev := map[string]any{
		"property_id": pr.ID,
		"tier":        tier,
		"seed":        int64(seed),
		"level":       pr.Level,
		"coverage":    cov,
		"assumptions": pr.Assumptions,
		"wall_s":      wall.Seconds(),
		"violations":  len(reported),
	}
	dir := filepath.Join(outRoot(), "evidence")
	os.MkdirAll(dir, 0o755)
	b, _ := json.MarshalIndent(ev, "", " ")
	if err := os.WriteFile(filepath.Join(dir, pr.ID+".json"), b, 0o644); err != nil {
		fmt.Fprintln(os.Stderr, "evidence:", err)
		os.Exit(2)
	}
}
