package props

import (
	"encoding/json"
	"fmt"
	"sort"
	"strings"
	"sync"
	"time"

	"github.com/karagenc/socket.io-go/adapter"
	"github.com/karagenc/socket.io-go/parser"

	"verif/dst/sim"
)

// C08 — state recovery replays exactly the missed packets, or falls back cleanly.
//
// Modes:
//   log      the real session-aware adapter (window W and clean-up period through the verif creator; the
//            production creator with its 1-minute cleaner in a third of the runs) behind the recording rig
//            of C04: histories of namespace / room / except broadcasts and direct emits, sessions
//            disconnecting at every point and restoring on both sides of the window, cleaner passes between
//   raw      end to end: real sio server with recovery, raw polling peers that track pid and offset as a
//            client must, reconnecting with them (registered in c08e2e.go)
//   goclient end to end with the library's own client reconnecting by itself (c08e2e.go)

func init() {
	Register(&Property{
		ID: "C08", Title: "State recovery replays exactly the missed packets, or falls back cleanly",
		Level: "exploration",
		Modes: []Mode{{Name: "log", Weight: 6}, {Name: "raw", Weight: 3}, {Name: "goclient", Weight: 2}},
		Gen:   genC08, Run: runC08,
		QuickRuns: 8000, ThoroughRuns: 400000,
		Rule: "[raw mode also: ConnectionStateRecovery.UseMiddlewares with a middleware of 0..40 ms, broadcasts every 4 ms across the instant of the return with the admission stalled 5-40 ms, a second return from the same offset; every emission has an invocation and a return time and one under way at the return must arrive exactly once, from the log or live] plan = (window W in {2 s, 30 s, 2 min}, clean-up period in {1 s, 10 s, 1 min (production creator)}, 2..4 sessions with rooms, history of namespace / room / except broadcasts and direct emits (text and binary) with fake timestamps spread over up to 3 windows, per session a disconnect point and a reconnect time on either side of the window incl. exactly W, optional concurrent broadcasters, stall parameters) from VERIF_SEED; " +
			"non-trivial = a restore within the window had to replay at least one packet and skip at least one (filtered or before the offset), or a restore was refused for expiry; distinct = distinct history digest",
		Assumptions: []string{
			"a restore may be refused when the session is older than W or when the packet named by the offset is itself older than W (the cleaner may have dropped it); at exactly W either answer is accepted",
			"a successful restore must return exactly the model's missed list: all, in log order, none twice",
		},
		Real: []string{"adapter.sessionAwareAdapter (RestoreSession, PersistSession, Broadcast, cleaner), inMemoryAdapter, parser/json; in raw/goclient modes the whole stack"},
		Stub: append([]string{"log mode: SocketStore and Socket are the recording rig of C04"}, commonStub...),
	})
}

func genC08(p *sim.Plan, r *sim.Rand, tier string) {
	switch p.Mode {
	case "raw", "goclient":
		genC08E2E(p, r)
		return
	}
	W := []int64{2, 30, 120}[r.Intn(3)]
	p.Set("window_s", W)
	p.Set("cleaner_ms", []int64{1000, 10000, 60000}[r.Intn(3)])
	p.SetB("production_creator", p.C("cleaner_ms") == 60000)
	ns := r.Range(2, 4)
	p.Set("sockets", int64(ns))
	p.Stall = DrawStall(r, 200_000_000, "adapter_session_aware.go", "adapter_memory.go")
	span := W * 3 * 1_000_000_000
	nb := r.Range(4, 40)
	conc := r.Bool(0.3)
	p.SetB("concurrent", conc)
	// initial rooms
	for s := 0; s < ns; s++ {
		p.Ops = append(p.Ops, sim.Op{At: 0, Actor: 0, Kind: "join", I: []int64{int64(s), int64(r.Intn(8))}})
	}
	for i := 0; i < nb; i++ {
		at := 1_000_000 + r.I64n(span)
		if r.Bool(0.3) {
			at = 1_000_000 + r.I64n(W*1_000_000_000/4+1) // a dense stretch early on
		}
		kind := []string{"bcast", "bcast", "bcast", "direct"}[r.Intn(4)]
		actor := 0
		if conc {
			actor = r.Intn(3)
		}
		op := sim.Op{At: at, Actor: actor, Kind: kind, I: []int64{int64(r.Intn(8)), int64(r.Intn(8)), int64(r.Intn(2)), int64(r.Intn(ns))}}
		p.Ops = append(p.Ops, op)
	}
	// concurrent broadcasters issuing at the very same instant: log order vs delivery order
	if conc && r.Bool(0.7) {
		at := 1_000_000 + r.I64n(span/2)
		k := r.Range(2, 4)
		for i := 0; i < k; i++ {
			p.Ops = append(p.Ops, sim.Op{At: at, Actor: i % 3, Kind: "bcast", I: []int64{0, 0, int64(r.Intn(2)), 0}})
		}
		p.Set("burst_at", at)
	}
	// each session: one disconnect, one restore attempt (some twice)
	for s := 0; s < ns; s++ {
		if r.Bool(0.15) {
			continue
		}
		d := 2_000_000 + r.I64n(span)
		if b := p.C("burst_at"); b > 0 && r.Bool(0.6) {
			d = b + int64(r.Range(60, 400))*1_000_000 // shortly after the burst (after the longest stall)
		}
		var gap int64
		switch r.Intn(6) {
		case 0:
			gap = W * 1_000_000_000 // exactly the window
		case 1:
			gap = W*1_000_000_000 + int64(r.Range(1, 1000))*1_000_000
		case 2:
			gap = W*1_000_000_000 - int64(r.Range(1, 1000))*1_000_000
		case 3:
			gap = r.I64n(W*1_000_000_000/10 + 1)
		default:
			gap = r.I64n(W * 2 * 1_000_000_000)
		}
		if gap < 1 {
			gap = 1
		}
		p.Ops = append(p.Ops, sim.Op{At: d, Actor: 10 + s, Kind: "disconnect", I: []int64{int64(s)}})
		p.Ops = append(p.Ops, sim.Op{At: d + gap, Actor: 10 + s, Kind: "restore", I: []int64{int64(s), int64(r.Intn(10))}})
	}
	p.Horizon = span*2 + int64(10*time.Second)
}

func runC08(e *sim.Env) {
	switch e.Plan.Mode {
	case "raw":
		runC08Raw(e)
	case "goclient":
		runC08GoClient(e)
	default:
		runC08Log(e)
	}
}

type c08Packet struct {
	id      int64 // payload id
	offset  string
	at      int64
	T, E    []adapter.Room
	begin   int64
	end     int64
	logSeq  int
	deliver map[adapter.SocketID]bool
}

// c08Store extends the C04 rig store: it parses the offset each delivery carries.
type c08Recv struct {
	id     int64
	offset string
	at     int64
}

func c08ParseDelivery(buffers [][]byte) (id int64, offset string) {
	id = -1
	if len(buffers) == 0 {
		return
	}
	t := string(buffers[0])
	i := strings.Index(t, "[")
	if i < 0 {
		return
	}
	var arr []any
	if json.Unmarshal([]byte(t[i:]), &arr) != nil || len(arr) < 2 {
		return
	}
	if f, ok := arr[1].(float64); ok {
		id = int64(f)
	}
	if s, ok := arr[len(arr)-1].(string); ok && len(arr) >= 3 {
		offset = s
	}
	return
}

func runC08Log(e *sim.Env) {
	p := e.Plan
	W := time.Duration(p.C("window_s")) * time.Second
	ns := int(p.C("sockets"))
	var mu sync.Mutex
	recv := map[adapter.SocketID][]c08Recv{}
	store := &c04Store{sockets: map[adapter.SocketID]adapter.Socket{}, recv: map[adapter.SocketID][]int64{}, e: e}
	hook := &c08StoreHook{c04Store: store, on: func(sid adapter.SocketID, buffers [][]byte) {
		id, off := c08ParseDelivery(buffers)
		mu.Lock()
		recv[sid] = append(recv[sid], c08Recv{id: id, offset: off, at: e.Now()})
		mu.Unlock()
	}}
	var ad adapter.Adapter
	if p.B("production_creator") {
		ad = adapter.NewSessionAwareAdapterCreator(W)(hook, refParser)
	} else {
		ad = adapter.VerifNewSessionAwareAdapterCreator(W, time.Duration(p.C("cleaner_ms"))*time.Millisecond)(hook, refParser)
	}
	type sess struct {
		sid          adapter.SocketID
		pid          adapter.PrivateSessionID
		sock         *c04Socket
		rooms        map[adapter.Room]bool
		connected    bool
		disconnectAt int64
		lastOffset   string
	}
	sessions := make([]*sess, ns)
	for i := range sessions {
		sid := adapter.SocketID(fmt.Sprintf("sock%d", i))
		s := &sess{sid: sid, pid: adapter.PrivateSessionID(fmt.Sprintf("pid%d", i)), rooms: map[adapter.Room]bool{adapter.Room(sid): true}, connected: true}
		s.sock = &c04Socket{id: sid, ad: ad, store: store}
		store.sockets[sid] = s.sock
		ad.AddAll(sid, []adapter.Room{adapter.Room(sid)})
		sessions[i] = s
	}
	var log []*c08Packet // the model's single-copy log, in the order Broadcast calls returned... see below
	bid := int64(0)
	nontrivial := false

	byActor := map[int][]sim.Op{}
	for _, op := range p.Ops {
		byActor[op.Actor] = append(byActor[op.Actor], op)
	}
	actors := []int{}
	for a := range byActor {
		actors = append(actors, a)
	}
	sort.Ints(actors)
	for _, a := range actors {
		a := a
		ops := byActor[a]
		e.Go(func() {
			for _, op := range ops {
				e.SleepUntil(op.At)
				switch op.Kind {
				case "join":
					s := sessions[op.Int(0)]
					rs := roomsOf(op.Int(1), 3)
					if len(rs) > 0 {
						s.sock.Join(rs...)
						mu.Lock()
						for _, r := range rs {
							s.rooms[r] = true
						}
						mu.Unlock()
					}
				case "bcast", "direct":
					mu.Lock()
					bid++
					pk := &c08Packet{id: bid, begin: e.Now(), at: e.Now(), end: 1 << 62}
					log = append(log, pk) // in the model's log from its invocation on; end is open until Broadcast returns
					if op.Kind == "direct" {
						pk.T = []adapter.Room{adapter.Room(sessions[op.Int(3)].sid)}
					} else {
						pk.T, pk.E = roomsOf(op.Int(0), 3), roomsOf(op.Int(1), 3)
					}
					mu.Unlock()
					h := &parser.PacketHeader{Type: parser.PacketTypeEvent, Namespace: "/"}
					opts := adapter.NewBroadcastOptions()
					for _, r := range pk.T {
						opts.Rooms.Add(r)
					}
					for _, r := range pk.E {
						opts.Except.Add(r)
					}
					v := make([]any, 0, 4)
					v = append(v, "ev", pk.id)
					if op.Int(2) == 1 {
						v = append(v, "payload-"+fmt.Sprint(pk.id))
					}
					iid, _ := e.Invoke(a, fmt.Sprintf("broadcast #%d to %v except %v", pk.id, pk.T, pk.E))
					ad.Broadcast(h, v, opts)
					e.Return(a, iid, "broadcast")
					mu.Lock()
					pk.end = e.Now()
					mu.Unlock()
				case "disconnect":
					s := sessions[op.Int(0)]
					mu.Lock()
					if !s.connected {
						mu.Unlock()
						continue
					}
					s.connected = false
					s.disconnectAt = e.Now()
					// the offset a client holds is the one of the last packet it received
					if rs := recv[s.sid]; len(rs) > 0 {
						s.lastOffset = rs[len(rs)-1].offset
					}
					var rooms []adapter.Room
					for r := range s.rooms {
						rooms = append(rooms, r)
					}
					sort.Slice(rooms, func(i, j int) bool { return rooms[i] < rooms[j] })
					mu.Unlock()
					// what serverSocket.onClose does, in its order
					ad.PersistSession(&adapter.SessionToPersist{SID: s.sid, PID: s.pid, Rooms: rooms})
					ad.DeleteAll(s.sid)
					store.Remove(s.sid)
					e.Log(a, "disconnect", "%s offset=%q rooms=%v", s.sid, s.lastOffset, rooms)
				case "restore":
					s := sessions[op.Int(0)]
					mu.Lock()
					if s.connected {
						mu.Unlock()
						continue
					}
					offset := s.lastOffset
					mu.Unlock()
					pid := s.pid
					switch op.Int(1) {
					case 0:
						pid = "nosuchpid" // unknown session
					case 1:
						offset = "nosuchoffset" // unknown offset
					}
					iid, _ := e.Invoke(a, fmt.Sprintf("RestoreSession %s %q", pid, offset))
					restoreInv := e.Now()
					got, ok := ad.RestoreSession(pid, offset)
					now := e.Now()
					e.Return(a, iid, fmt.Sprintf("ok=%v", ok))
					e.Check()
					mu.Lock()
					age := now - s.disconnectAt
					// the model's answer
					idx := -1
					for i, pk := range log {
						if pk.offset == "" {
							pk.offset = c08OffsetOf(recv, pk.id)
						}
						if pk.offset != "" && pk.offset == offset {
							idx = i
						}
					}
					var want []int64
					offAge := int64(-1)
					if idx >= 0 {
						offAge = now - log[idx].at
						for _, pk := range log[idx+1:] {
							if pk.begin > now {
								continue
							}
							if c08Match(s.rooms, pk.T, pk.E) {
								want = append(want, pk.id)
							}
						}
					}
					slack := e.StallsOverlapping(s.disconnectAt, now)
					sig := fmt.Sprintf("W=%ds", p.C("window_s"))
					switch {
					case pid != s.pid || op.Int(1) == 1 || offset == "":
						if ok {
							e.Violate("C08/restored-unknown", sig, "RestoreSession(%s, %q) succeeded although the session or the offset is unknown", pid, offset)
						}
					case ok:
						if age > int64(W)+slack {
							e.Violate("C08/restored-expired", sig, "session %s restored %v after its disconnect, window %v", s.pid, time.Duration(age), W)
						}
						var gotIDs []int64
						for _, mp := range got.MissedPackets {
							id := int64(-1)
							if len(mp.Data) >= 2 {
								switch x := mp.Data[1].(type) {
								case int64:
									id = x
								case int:
									id = int64(x)
								case float64:
									id = int64(x)
								}
							}
							gotIDs = append(gotIDs, id)
						}
						// exact, in log order, none twice - except for packets whose broadcast overlapped another
						// broadcast, this session's disconnect or this restore (stalls and concurrent
						// broadcasters make intervals overlap; their place in the log is then not determined)
						raced := map[int64]bool{}
						for _, pk := range log {
							for _, other := range log {
								if other != pk && other.begin <= pk.end && pk.begin <= other.end {
									raced[pk.id] = true
								}
							}
							if (pk.begin <= s.disconnectAt && s.disconnectAt <= pk.end) || (pk.begin <= now && restoreInv <= pk.end) {
								raced[pk.id] = true
							}
						}
						strip := func(xs []int64) []int64 {
							var out []int64
							for _, x := range xs {
								if !raced[x] {
									out = append(out, x)
								}
							}
							return out
						}
						dup := false
						seenID := map[int64]bool{}
						for _, x := range gotIDs {
							dup = dup || seenID[x]
							seenID[x] = true
						}
						// whatever the races: a packet this session had already received must not be replayed
						for _, x := range gotIDs {
							for _, rr := range recv[s.sid] {
								if rr.id == x && rr.at <= s.disconnectAt {
									e.Violate("C08/replayed-already-received", "concurrent broadcasts: log order differs from delivery order", "session %s restored from offset %q: packet #%d is replayed although the session received it at t=%d, before its disconnect at t=%d (log order and delivery order differ: deliveries %v)", s.pid, offset, x, rr.at, s.disconnectAt, recv[s.sid])
								}
							}
						}
						if dup {
							e.Violate("C08/recovered-with-duplicate", sig, "session %s restored: a packet is replayed twice: %v", s.pid, gotIDs)
						} else if fmt.Sprint(strip(gotIDs)) != fmt.Sprint(strip(want)) {
							cls := "C08/recovered-with-gap"
							if len(strip(gotIDs)) > len(strip(want)) {
								cls = "C08/recovered-with-extra"
							}
							e.Violate(cls, sig, "session %s (rooms %v) restored from offset %q %v after its disconnect: replayed packets %v, the log says it missed %v (packets with undetermined place: %v)", s.pid, keysOf(s.rooms), offset, time.Duration(age), gotIDs, want, keysInt(raced))
						}
						if got.SID != s.sid || fmt.Sprint(sortedRooms(got.Rooms)) != fmt.Sprint(keysOf(s.rooms)) {
							e.Violate("C08/restored-wrong-state", sig, "session %s restored with sid %s rooms %v, persisted sid %s rooms %v", s.pid, got.SID, sortedRooms(got.Rooms), s.sid, keysOf(s.rooms))
						}
						if len(want) > 0 && idx > 0 {
							nontrivial = true
						}
						s.connected = true
					default: // refused
						mayRefuse := age >= int64(W)-slack || idx < 0 || offAge >= int64(W)-slack
						if !mayRefuse {
							e.Violate("C08/refused-within-window", sig, "session %s: restore refused %v after its disconnect (window %v) although the packet named by its offset is only %v old", s.pid, time.Duration(age), W, time.Duration(offAge))
						} else {
							nontrivial = nontrivial || age >= int64(W)
						}
					}
					mu.Unlock()
				}
			}
		})
	}
	time.Sleep(time.Duration(p.Horizon))
	if pend := e.Pending(); len(pend) > 0 {
		e.Violate("C08/api-hang", "log", "adapter calls still blocked: %v", pend)
	}
	if nontrivial {
		e.NonTrivial()
	}
	e.Shape(fmt.Sprintf("log W%d n%d", p.C("window_s"), len(log)))
	e.Sample = map[string]any{"mode": "log", "window_s": p.C("window_s"), "cleaner_ms": p.C("cleaner_ms"), "production_creator": p.B("production_creator"), "sessions": ns, "broadcasts": len(log), "concurrent": p.B("concurrent"), "log_len_at_end": adapter.VerifLogLen(ad)}
}

type c08StoreHook struct {
	*c04Store
	on func(sid adapter.SocketID, buffers [][]byte)
}

func (h *c08StoreHook) SendBuffers(sid adapter.SocketID, buffers [][]byte) bool {
	ok := h.c04Store.SendBuffers(sid, buffers)
	if ok {
		h.on(sid, buffers)
	}
	return ok
}

func c08OffsetOf(recv map[adapter.SocketID][]c08Recv, id int64) string {
	for _, rs := range recv {
		for _, r := range rs {
			if r.id == id && r.offset != "" {
				return r.offset
			}
		}
	}
	return ""
}

func c08Match(rooms map[adapter.Room]bool, T, E []adapter.Room) bool {
	for _, r := range E {
		if rooms[r] {
			return false
		}
	}
	if len(T) == 0 {
		return true
	}
	for _, r := range T {
		if rooms[r] {
			return true
		}
	}
	return false
}

func keysOf(m map[adapter.Room]bool) []string {
	var out []string
	for k := range m {
		out = append(out, string(k))
	}
	sort.Strings(out)
	return out
}

func sortedRooms(rs []adapter.Room) []string {
	var out []string
	for _, r := range rs {
		out = append(out, string(r))
	}
	sort.Strings(out)
	return out
}

func keysInt(m map[int64]bool) []int64 {
	var out []int64
	for k := range m {
		out = append(out, k)
	}
	sort.Slice(out, func(i, j int) bool { return out[i] < out[j] })
	return out
}
