package props

import (
	"encoding/json"
	"fmt"
	"sync"
	"time"

	mapset "github.com/deckarep/golang-set/v2"
	sio "github.com/karagenc/socket.io-go"

	"verif/dst/sim"
	"verif/dst/world"
)

// C04 "live" mode: the statement's last clause - membership is the net effect of joins and leaves, and
// a disconnected socket belongs to no room - against the real server sockets (the component rig of
// the other modes has sockets of its own): application tasks join and leave rooms on real sockets while
// these are being disconnected from either side, from the namespace, or lose their connection.

func genC04Live(p *sim.Plan, r *sim.Rand) {
	world.DrawNet(p, r)
	if p.C("lat_us") > 2000 {
		p.Set("lat_us", 2000)
		p.Set("jit_us", 300)
	}
	p.Set("tr", int64(r.Intn(3)))
	nc := r.Range(2, 4)
	p.Set("clients", int64(nc))
	p.Stall = DrawStall(r, 300_000_000, "server_socket.go", "adapter_memory.go", "adapter_session_aware.go", "namespace.go", "server_conn.go")
	if r.Bool(0.5) {
		p.Stall.Focus = []string{"server_socket.go", "adapter_memory.go"}
		p.Stall.SitePct = 100
		p.Stall.RatePPM = []int{50000, 150000, 300000}[r.Intn(3)]
		p.Stall.MaxNs = []int64{100_000, 2_000_000, 20_000_000}[r.Intn(3)]
	}
	span := int64(r.LogDur(5*time.Millisecond, 400*time.Millisecond))
	tasks := r.Range(1, 4)
	for t := 0; t < tasks; t++ {
		for k := 0; k < r.Range(5, 30); k++ {
			kind := []string{"join", "join", "leave", "socketsjoin"}[r.Intn(4)]
			p.Ops = append(p.Ops, sim.Op{At: r.I64n(span), Actor: t, Kind: kind, I: []int64{int64(r.Intn(nc)), int64(r.Intn(4))}})
		}
	}
	// the ends: one per client at most, at instants inside the join traffic
	for c := 0; c < nc; c++ {
		if r.Bool(0.8) {
			kind := []string{"srv_disc_false", "srv_disc_true", "cli_disconnect", "disc_sockets", "cut"}[r.Intn(5)]
			p.Ops = append(p.Ops, sim.Op{At: r.I64n(span), Actor: 100 + c, Kind: kind, I: []int64{int64(c), int64(r.Intn(4))}})
		}
	}
	p.SortOps()
	p.Horizon = span + int64(30*time.Second)
}

func runC04Live(e *sim.Env) {
	p := e.Plan
	cfg := world.NetConfigFromPlan(p)
	cfg.KeepAliveNs = int64(10 * time.Second)
	w := world.New(e, cfg)
	nc := int(p.C("clients"))
	rooms := []sio.Room{"r0", "r1", "r2", "r3"}
	var mu sync.Mutex
	type ss struct {
		sock sio.ServerSocket
		id   sio.SocketID
		gone bool
	}
	byClient := map[int]*ss{}
	var all []*ss
	var srv *sio.Server
	srv = w.StartServer(world.ServerOpts{PingInterval: 2 * time.Second, PingTimeout: 2 * time.Second, UpgradeTimeout: 20 * time.Minute, Configure: func(s *sio.Server) {
		s.Of("/").Use(func(sock sio.ServerSocket, h *sio.Handshake) any {
			x := &ss{sock: sock, id: sock.ID()}
			sock.OnDisconnect(func(sio.Reason) { mu.Lock(); x.gone = true; mu.Unlock() })
			var a struct {
				C int `json:"c"`
			}
			json.Unmarshal(h.Auth, &a)
			mu.Lock()
			byClient[a.C] = x
			all = append(all, x)
			mu.Unlock()
			return nil
		})
	}})
	clients := make([]*world.SioClient, nc)
	for c := 0; c < nc; c++ {
		clients[c] = w.NewSioClient(c, "/", world.ClientOpts{Transports: world.Transports(p.C("tr")), NoReconnection: true, UpgradeTimeout: 20 * time.Minute}, &sio.ClientSocketConfig{Auth: map[string]any{"c": c}})
		clients[c].Socket.Connect()
	}
	if !world.WaitUntil(20*time.Second, func() bool {
		for _, c := range clients {
			if !c.Socket.Connected() {
				return false
			}
		}
		return true
	}) {
		e.Violate("C04/connect-failed", "live setup", "clients did not connect")
		return
	}
	time.Sleep(5 * time.Millisecond)
	base := e.Now()
	get := func(c int) *ss {
		mu.Lock()
		defer mu.Unlock()
		return byClient[c]
	}
	byActor := map[int][]sim.Op{}
	var actors []int
	for _, op := range p.Ops {
		if _, ok := byActor[op.Actor]; !ok {
			actors = append(actors, op.Actor)
		}
		byActor[op.Actor] = append(byActor[op.Actor], op)
	}
	ends, joins := 0, 0
	for _, a := range actors {
		ops := byActor[a]
		a := a
		e.Go(func() {
			for _, op := range ops {
				e.SleepUntil(base + op.At)
				x := get(int(op.Int(0)))
				if x == nil {
					continue
				}
				room := rooms[op.Int(1)]
				iid, _ := e.Invoke(a, fmt.Sprintf("%s c%d %s", op.Kind, op.Int(0), room))
				switch op.Kind {
				case "join":
					mu.Lock()
					joins++
					mu.Unlock()
					x.sock.Join(room, rooms[(op.Int(1)+1)%4])
				case "leave":
					x.sock.Leave(room)
				case "socketsjoin":
					srv.Of("/").In(sio.Room(x.id)).SocketsJoin(room)
				case "srv_disc_false", "srv_disc_true":
					mu.Lock()
					ends++
					mu.Unlock()
					x.sock.Disconnect(op.Kind == "srv_disc_true")
				case "cli_disconnect":
					mu.Lock()
					ends++
					mu.Unlock()
					clients[op.Int(0)].Socket.Disconnect()
				case "disc_sockets":
					mu.Lock()
					ends++
					mu.Unlock()
					srv.Of("/").In(sio.Room(x.id)).DisconnectSockets(false)
				case "cut":
					mu.Lock()
					ends++
					mu.Unlock()
					w.Net.Apply(sim.Fault{Kind: "cut", Target: fmt.Sprintf("c%d*", op.Int(0))})
				}
				e.Return(a, iid, op.Kind)
			}
		})
	}
	time.Sleep(time.Duration(p.Horizon))
	e.StopStalls()
	if pend := e.Pending(); len(pend) > 0 {
		e.Violate("C04/api-blocked", "live", "calls did not return: %v; locks held: %v", pend, sim.HeldLocks())
	}
	mu.Lock()
	snapshot := append([]*ss(nil), all...)
	goneN := 0
	mu.Unlock()
	ad := srv.Of("/").Adapter()
	for _, x := range snapshot {
		mu.Lock()
		gone := x.gone
		mu.Unlock()
		if !gone {
			continue
		}
		goneN++
		e.Check()
		if rs := x.sock.Rooms(); rs.Cardinality() > 0 {
			e.Violate("C04/disconnected-socket-in-room", "live", "socket %s was disconnected (its disconnect handler ran) and still belongs to rooms %v", x.id, rs.ToSlice())
		}
		if rs, ok := ad.SocketRooms(x.id); ok {
			e.Violate("C04/disconnected-socket-in-room", "live adapter", "the adapter still lists rooms %v for the disconnected socket %s", rs.ToSlice(), x.id)
		}
		for _, r := range rooms {
			e.Check()
			if ad.Sockets(mapset.NewSet[sio.Room](r)).Contains(x.id) {
				e.Violate("C04/disconnected-socket-in-room", "live room", "room %q still contains the disconnected socket %s", r, x.id)
			}
		}
	}
	if goneN > 0 && joins > 0 {
		e.NonTrivial()
	}
	e.Shape(fmt.Sprintf("live c%d gone%d", nc, goneN))
	e.Sample = map[string]any{"mode": "live", "clients": nc, "join_operations": joins, "ends_issued": ends, "sockets_disconnected": goneN}
}
