package props

import (
	"bytes"
	"fmt"
	"sort"
	"time"

	eio "github.com/karagenc/socket.io-go/engine.io"
	eioparser "github.com/karagenc/socket.io-go/engine.io/parser"
	"nhooyr.io/websocket"

	"verif/dst/sim"
	"verif/dst/simnet"
	"verif/dst/world"
)

// C07 — a transport upgrade loses, duplicates and breaks nothing.
//
// Modes:
//   clean     no fault: numbered text/binary messages both ways before, during and after the swap
//   fault     one fault on the CANDIDATE connection only (dialer c0w): refused, stalled past the
//             upgrade time-out, black-holed, cut at a byte offset of either direction
//   stream    no fault: a steady stream of numbered messages in both directions across the swap while the
//             polling and the candidate connection have different latencies (two TCP connections: what
//             the server sends on the new one can arrive before the response to the last poll request)
//   coincide  the probe pong is held so that it reaches the client at the very instant its upgrade
//             time-out fires (reactive fault through the network's write hook)
// Fixed sweep: cut at byte k of each direction of the candidate connection (fault enumeration over
// the upgrade's protocol steps).

func init() {
	Register(&Property{
		ID: "C07", Title: "A transport upgrade loses, duplicates and breaks nothing",
		Level: "fault_enumeration",
		Modes: []Mode{{Name: "clean", Weight: 4}, {Name: "fault", Weight: 5}, {Name: "coincide", Weight: 2}, {Name: "stream", Weight: 3}},
		Gen:   genC07, Run: runC07, Fixed: fixedC07,
		QuickRuns: 5000, ThoroughRuns: 300000,
		Rule: "plan = (latency/jitter/chunking, client and server upgrade time-outs, numbered message script for both directions concentrated around the swap, one fault on the candidate connection: refuse | stall | black-hole | cut at byte k of c2s/s2c | pong held until the client's time-out instant (+-delta), stall parameters) from VERIF_SEED, " +
			"plus a fixed sweep of cut offsets over both directions of the candidate connection; non-trivial = messages were in flight in both directions while the upgrade was in progress (or the fault fired); distinct = distinct history digest among those",
		Assumptions: []string{
			"faults touch only the candidate (WebSocket) connection; the polling connections keep TCP's contract",
			"exactly-once is demanded of sessions that stayed up; a session that ended is held to at-most-once",
			"'the connection keeps working on its original transport' is demanded when the client never completed the upgrade and the server never switched",
		},
		Real: commonReal, Stub: commonStub,
	})
}

func genC07Messages(p *sim.Plan, r *sim.Rand) {
	rtt := 2*p.C("lat_us")*1000 + 1_000_000
	n := r.Range(4, 40)
	for i := 0; i < n; i++ {
		var at int64
		switch r.Intn(3) {
		case 0: // around the swap: the first dozen round trips
			at = r.I64n(12 * rtt)
		case 1:
			at = r.I64n(3 * rtt)
		default:
			at = r.I64n(12*rtt + int64(2*time.Second))
		}
		size := int64(r.Range(1, 40))
		if r.Bool(0.1) {
			size = int64(r.Range(1000, 40000))
		}
		p.Ops = append(p.Ops, sim.Op{At: at, Actor: r.Intn(2), Kind: "msg", I: []int64{int64(i + 1), size, int64(r.Intn(3) / 2)}})
	}
	// bursts: several messages at the same instant
	if r.Bool(0.5) {
		at := r.I64n(8 * rtt)
		who := r.Intn(2)
		for k := 0; k < r.Range(3, 10); k++ {
			p.Ops = append(p.Ops, sim.Op{At: at, Actor: who, Kind: "msg", I: []int64{int64(1000 + k), int64(r.Range(1, 30)), 0}})
		}
	}
}

func genC07(p *sim.Plan, r *sim.Rand, tier string) {
	world.DrawNet(p, r)
	p.Stall = DrawStall(r, 300_000_000)
	p.Set("cli_upgrade_ms", int64(r.Range(1, 10))*1000)
	p.Set("srv_upgrade_ms", int64(r.Range(1, 10))*1000)
	genC07Messages(p, r)
	switch p.Mode {
	case "clean":
		// time-outs are configuration: with 150 ms +- 150 ms latency an upgrade takes seconds, and a
		// time-out expiring while the UPGRADE packet is in flight is an unavoidable distributed race.
		// The clean mode keeps them out of reach; the fault modes own them.
		p.Set("cli_upgrade_ms", 600_000)
		p.Set("srv_upgrade_ms", 600_000)
	case "stream":
		p.Set("cli_upgrade_ms", 600_000)
		p.Set("srv_upgrade_ms", 600_000)
		lat := []int64{500, 2000, 35000}[r.Intn(3)]
		p.Set("lat_us", lat)
		p.Set("jit_us", lat/int64(r.Range(2, 8)))
		p.Set("lat_ws_pct", []int64{20, 50, 100, 200}[r.Weighted([]int{3, 3, 1, 1})])
		p.Set("lat_poll_pct", []int64{100, 150, 300}[r.Intn(3)])
		p.Ops = nil
		period := lat * 1000 / int64(r.Range(2, 6))
		n := int(14 * 2 * lat * 1000 / period)
		if n > 150 {
			n = 150
		}
		id := int64(1)
		for who := 0; who < 2; who++ {
			if who == 0 && r.Bool(0.3) {
				continue
			}
			off := r.I64n(period)
			for k := 0; k < n; k++ {
				p.Ops = append(p.Ops, sim.Op{At: off + int64(k)*period, Actor: who, Kind: "msg", I: []int64{id, int64(r.Range(1, 30)), int64(r.Intn(3) / 2)}})
				id++
			}
		}
	case "fault":
		switch r.Intn(5) {
		case 0:
			p.Faults = []sim.Fault{{At: 0, Kind: "refuse", Target: "c0w"}}
		case 1:
			p.Faults = []sim.Fault{{At: -1, Kind: "stall", Target: "c0w#1", Dir: []string{"c2s", "s2c"}[r.Intn(2)], I: []int64{int64(r.Intn(500)), int64(r.Range(1, 15)) * int64(time.Second)}}}
		case 2:
			p.Faults = []sim.Fault{{At: -1, Kind: "blackhole", Target: "c0w#1", Dir: []string{"c2s", "s2c", ""}[r.Intn(3)], I: []int64{int64(r.Intn(500))}}}
		default:
			p.Faults = []sim.Fault{{At: -1, Kind: "cut", Target: "c0w#1", Dir: []string{"c2s", "s2c"}[r.Intn(2)], I: []int64{int64(r.Intn(500))}}}
		}
	case "coincide":
		p.Set("lat_us", 0)
		p.Set("jit_us", 0)
		p.Set("coincide", 1)
		p.Set("delta_ns", []int64{0, 0, 0, 1, -1, 2}[r.Intn(6)])
		p.Set("cli_upgrade_ms", 1000)
		if r.Bool(0.5) {
			p.Stall.RatePPM = 0 // exact coincidence needs an undisturbed schedule half of the time
		}
	}
	p.Horizon = int64(40 * time.Second)
}

func fixedC07(tier string, seed uint64) []*sim.Plan {
	step := 12
	if tier == "thorough" {
		step = 1
	}
	var out []*sim.Plan
	idx := 0
	for _, dir := range []string{"c2s", "s2c"} {
		for k := 0; k <= 460; k++ {
			// quick: every 12th byte, and every 2nd byte of the server-to-client stretch that carries the
			// probe pong and the first frames after the switch (where a cut lands inside upgradeTo)
			if step > 1 && k%step != 0 && !(dir == "s2c" && k >= 180 && k <= 300 && k%2 == 1) {
				continue
			}
			p := sim.NewPlan("C07", "fault", seed, 2_000_000+idx)
			idx++
			p.Set("lat_us", 2000)
			p.SetB("chunk", true)
			p.Set("cli_upgrade_ms", 2000)
			p.Set("srv_upgrade_ms", 2000)
			r := sim.NewRand(seed).Fork("c07fixed").ForkN(uint64(idx))
			genC07Messages(p, r)
			p.Faults = []sim.Fault{{At: -1, Kind: "cut", Target: "c0w#1", Dir: dir, I: []int64{int64(k)}}}
			p.Horizon = int64(40 * time.Second)
			p.CfgS["fixed"] = fmt.Sprintf("cut %s byte %d", dir, k)
			p.SortOps()
			out = append(out, p)
		}
	}
	return out
}

func runC07(e *sim.Env) {
	p := e.Plan
	cfgNet := world.NetConfigFromPlan(p)
	if p.C("lat_ws_pct") > 0 {
		cfgNet.LatPct = map[string]int64{"c0w": p.C("lat_ws_pct"), "c0p": p.C("lat_poll_pct")}
	}
	w := world.New(e, cfgNet)
	cliUp := world.Ms(p.C("cli_upgrade_ms"))
	es := w.StartEIOServer(&eio.ServerConfig{PingInterval: 25 * time.Second, PingTimeout: 20 * time.Minute, UpgradeTimeout: world.Ms(p.C("srv_upgrade_ms")),
		WebSocketAcceptOptions: &websocket.AcceptOptions{CompressionMode: websocket.CompressionDisabled}})
	w.Net.Schedule(p.Faults)

	if p.B("coincide") {
		// Reactive fault: the first client-to-server write on the candidate after its HTTP request is the
		// probe ping; the client's time-out started at (practically) that instant. The server's first
		// frame after the 101 response is the probe pong: hold it until ping instant + time-out + delta.
		var pingAt int64 = -1
		c2sWrites := 0
		s2cWrites := 0
		w.Net.WriteHook = func(c *simnet.Conn, dir string, data []byte, now int64) int64 {
			if c.Name() != "c0w#1" {
				return 0
			}
			if dir == "c2s" {
				c2sWrites++
				if bytes.HasPrefix(data, []byte("GET ")) {
					return 0
				}
				if pingAt < 0 {
					pingAt = now
					e.Log(0, "coincide", "probe ping written at t=%d", now)
				}
				return 0
			}
			s2cWrites++
			if bytes.HasPrefix(data, []byte("HTTP/")) || pingAt < 0 {
				return 0
			}
			if e.ProbeCount("pong-held") == 0 {
				e.Probe("pong-held")
				until := pingAt + int64(cliUp) + p.C("delta_ns")
				e.Log(0, "coincide", "probe pong held until t=%d", until)
				return until
			}
			return 0
		}
	}

	upgradeDone := 0
	var upgradeAt int64 = -1
	cli, dialErr := w.DialEIO(0, world.ClientOpts{Transports: []string{"polling", "websocket"}, UpgradeTimeout: cliUp,
		UpgradeDone: func(name string) { upgradeDone++; upgradeAt = e.Now(); e.Log(0, "cli.upgraded", "%s", name) }})
	if dialErr != nil {
		e.Violate("C07/dial-failed", "setup", "polling handshake failed although only the candidate connection is faulted: %v", dialErr)
		return
	}
	if !world.WaitUntil(10*time.Second, func() bool { return len(es.Sides()) == 1 }) {
		e.Violate("C07/dial-failed", "setup", "no server session")
		return
	}
	srv := es.Sides()[0]
	base := e.Now()

	type sent struct {
		id   int64
		who  int
		data []byte
		bin  bool
		at   int64
		inv  int
		ret  int
	}
	var all []*sent
	for _, op := range p.Ops {
		op := op
		data := fill(op.Int(1)+8, uint64(op.Int(0)))
		copy(data, fmt.Sprintf("%05d:%d:", op.Int(0), op.Actor))
		s := &sent{id: op.Int(0), who: op.Actor, data: data, bin: op.Int(2) == 1, at: -1}
		all = append(all, s)
		e.Go(func() {
			e.SleepUntil(base + op.At)
			pk, _ := eioparser.NewPacket(eioparser.PacketTypeMessage, s.bin, data)
			s.at = e.Now()
			iid, inv := e.Invoke(op.Actor, fmt.Sprintf("send #%d %dB", s.id, len(data)))
			s.inv = inv
			if op.Actor == 0 {
				cli.Socket.Send(pk)
			} else {
				srv.Socket.Send(pk)
			}
			s.ret = e.Return(op.Actor, iid, "send")
		})
	}
	time.Sleep(time.Duration(p.Horizon))
	e.StopStalls()

	// liveness probes on whatever transport the session is on now
	_, ccl, _, _, _ := cli.Snapshot()
	_, scl, _, _, _ := srv.Snapshot()
	var probes []*sent
	if len(ccl) == 0 && len(scl) == 0 {
		for k := 0; k < 3; k++ {
			for who := 0; who < 2; who++ {
				data := []byte(fmt.Sprintf("probe:%d:%d", who, k))
				s := &sent{id: int64(9000 + 2*k + who), who: who, data: data, at: e.Now()}
				probes = append(probes, s)
				pk, _ := eioparser.NewPacket(eioparser.PacketTypeMessage, false, data)
				who := who
				// never from the root task: a Send that hangs must show up as a violation, not end the bubble
				e.Go(func() {
					iid, _ := e.Invoke(who, fmt.Sprintf("probe send %s", data))
					if who == 0 {
						cli.Socket.Send(pk)
					} else {
						srv.Socket.Send(pk)
					}
					e.Return(who, iid, "send")
				})
			}
		}
		time.Sleep(30 * time.Second)
	}

	// ---- oracle
	cpk, ccl, cerrs, _, _ := cli.Snapshot()
	spk, scl, serrs, _, _ := srv.Snapshot()
	srvName, cliName := "?", "?"
	if !e.Try(30*time.Second, func() { srvName = srv.Socket.TransportName() }) {
		e.Violate("C07/api-hang", "server TransportName", "serverSocket.TransportName() did not return within 30 s; pending: %v; lock holders: %v", e.Pending(), sim.HeldLocks())
	}
	if !e.Try(30*time.Second, func() { cliName = cli.Socket.TransportName() }) {
		e.Violate("C07/api-hang", "client TransportName", "clientSocket.TransportName() did not return within 30 s; pending: %v; lock holders: %v", e.Pending(), sim.HeldLocks())
	}
	closed := len(ccl) > 0 || len(scl) > 0
	sig := p.Mode
	if len(p.Faults) > 0 {
		sig = "fault " + p.Faults[0].Kind
	}
	if pend := e.Pending(); len(pend) > 0 {
		e.Violate("C07/send-never-returned", sig, "Send calls still blocked: %v", pend)
	}
	count := func(recv []world.EIORecv, s *sent) int {
		n := 0
		for _, r := range recv {
			if bytes.Equal(r.Data, s.data) && r.Binary == s.bin {
				n++
			}
		}
		return n
	}
	inflight := 0
	faultFired := false
	for _, f := range p.Faults {
		if e.FaultCount(f.Kind) > 0 {
			faultFired = true
		}
	}
	for _, s := range append(append([]*sent(nil), all...), probes...) {
		recv := spk
		if s.who == 1 {
			recv = cpk
		}
		n := count(recv, s)
		e.Check()
		if upgradeAt < 0 || (s.at >= 0 && s.at <= upgradeAt) {
			inflight++
		}
		switch {
		case n > 1:
			e.Violate("C07/duplicate", sig, "message #%d (sender %d, sent t=%d) delivered %d times; client transport=%s server transport=%s upgradeDone=%d", s.id, s.who, s.at, n, cliName, srvName, upgradeDone)
		case n == 0 && !closed && s.at >= 0 && !(faultFired && (srvName == "websocket" || cliName == "websocket")):
			// (a session that switched to a candidate which was then faulted is held to at-most-once:
			// it may take until the heartbeat to notice)
			e.Violate("C07/lost", sig, "message #%d (sender %d, sent t=%d) never delivered although the session stayed up; client transport=%s server transport=%s upgradeDone=%d (t=%d)", s.id, s.who, s.at, cliName, srvName, upgradeDone, upgradeAt)
		}
	}
	// order: a message whose Send had returned before another Send of the same side was invoked
	// arrives first (an upgrade that is invisible to the application does not reorder)
	for who := 0; who < 2; who++ {
		recv := spk
		if who == 1 {
			recv = cpk
		}
		pos := map[string]int{}
		for i, r := range recv {
			if _, ok := pos[string(r.Data)]; !ok {
				pos[string(r.Data)] = i
			}
		}
		var mine []*sent
		for _, s := range all {
			if s.who == who && s.ret > 0 {
				if _, ok := pos[string(s.data)]; ok {
					mine = append(mine, s)
				}
			}
		}
		sort.Slice(mine, func(i, j int) bool { return mine[i].inv < mine[j].inv })
		reported := false
		for i := 0; i+1 < len(mine) && !reported; i++ {
			a := mine[i]
			for _, b := range mine[i+1:] {
				if a.ret < b.inv {
					e.Check()
					if pos[string(b.data)] < pos[string(a.data)] {
						e.Violate("C07/reordered", sig, "message #%d (sender %d, Send returned at seq %d) was delivered after message #%d (Send invoked at seq %d); client transport=%s server transport=%s upgrade at t=%d", a.id, who, a.ret, b.id, b.inv, cliName, srvName, upgradeAt)
						reported = true
					}
					break // the nearest later message is enough (order is transitive)
				}
			}
		}
	}
	known := map[string]bool{}
	for _, s := range append(append([]*sent(nil), all...), probes...) {
		known[string(s.data)] = true
	}
	for _, r := range append(append([]world.EIORecv(nil), cpk...), spk...) {
		if !known[string(r.Data)] {
			e.Violate("C07/phantom", sig, "a message nobody sent was delivered: %.40q", r.Data)
		}
	}
	e.Check()
	if upgradeDone > 1 {
		e.Violate("C07/upgrade-done-twice", sig, "UpgradeDone fired %d times", upgradeDone)
	}
	if len(ccl) > 1 || len(scl) > 1 {
		e.Violate("C07/close-reported-twice", sig, "OnClose ran more than once: client=%v server=%v", ccl, scl)
	}
	faulted := len(p.Faults) > 0 || p.B("coincide")
	switch {
	case !faulted:
		e.Check()
		if closed {
			e.Violate("C07/closed-without-fault", sig, "session ended during a fault-free upgrade: client=%v server=%v errors c=%v s=%v", ccl, scl, cerrs, serrs)
		} else if upgradeDone != 1 || srvName != "websocket" || cliName != "websocket" {
			e.Violate("C07/upgrade-incomplete", sig, "fault-free upgrade did not complete: upgradeDone=%d client=%s server=%s errors c=%v s=%v", upgradeDone, cliName, srvName, cerrs, serrs)
		}
	case upgradeDone == 0 && srvName == "polling":
		// the attempt failed or timed out before anybody switched: the connection keeps working on polling
		e.Check()
		if closed {
			e.Violate("C07/failed-upgrade-killed-session", sig, "the upgrade attempt failed (client never switched, server on polling) but the session ended: client=%v server=%v errors c=%v s=%v", ccl, scl, cerrs, serrs)
		}
		e.Probe("stayed-on-polling")
	case upgradeDone == 1 && srvName == "websocket" && cliName == "websocket":
		e.Check()
		if closed && p.B("coincide") {
			e.Violate("C07/completed-upgrade-killed", "coincide pong==timeout", "both ends had switched to websocket (UpgradeDone fired at t=%d) and the session was then closed: client=%v server=%v errors c=%v s=%v", upgradeAt, ccl, scl, cerrs, serrs)
		}
		e.Probe("upgraded-despite-fault")
	default:
		e.Probe("half-switched")
	}
	if inflight >= 2 || e.ProbeCount("pong-held") > 0 {
		e.NonTrivial()
	}
	ids := []int{}
	for _, s := range all {
		ids = append(ids, int(s.id))
	}
	sort.Ints(ids)
	e.Shape(fmt.Sprintf("%s up%d %s/%s closed%v", sig, upgradeDone, cliName, srvName, closed))
	e.Sample = map[string]any{"mode": p.Mode, "fault": p.Faults, "fixed": p.CfgS["fixed"], "messages": len(all), "upgrade_done": upgradeDone, "upgrade_at_ns": upgradeAt,
		"client_transport": cliName, "server_transport": srvName, "closed": closed, "sent_before_swap": inflight}
}
