package props

import (
	"bytes"
	"context"
	"encoding/base64"
	"fmt"
	"io"
	"net"
	"runtime"
	"strings"
	"time"

	eioparser "github.com/karagenc/socket.io-go/engine.io/parser"
	"github.com/karagenc/socket.io-go/engine.io/transport/webtransport"

	"verif/dst/sim"
	"verif/dst/simnet"
	"verif/dst/world"
)

// C11 — Engine.IO framing round-trips and matches protocol v4 in every transport's form.
//
// The part of this property that meets a stream is simulated: the WebTransport length-prefix framer
// (send / nextPacket / limitedReader, through verif exports) runs as a sender task and a receiver task
// over a simulated connection with 1-byte to whole-frame chunking, latency, a stalled sender and cuts at
// byte offsets. Polling payloads and WebSocket frames are exercised where they really flow, in the
// worlds of C01 / C07 / C13. Everything that is a pure function of its input (single packets, payloads,
// arbitrary bytes into the decoders) runs as labelled input enumeration.
//
// Modes:
//   stream   frames of drawn lengths (all three prefix forms and their boundaries) must round-trip in order
//   cut      the stream is cut at a byte offset: every frame before the cut intact, then an error - never a wrong packet
//   silence  a header announcing L bytes followed by silence: the reader must not allocate beyond the limit

func init() {
	Register(&Property{
		ID: "C11", Title: "Engine.IO framing round-trips and matches protocol v4 in every transport's form",
		Level: "exploration",
		Modes: []Mode{{Name: "stream", Weight: 5}, {Name: "cut", Weight: 4}, {Name: "silence", Weight: 2}},
		Gen:   genC11, Run: runC11, Enum: enumC11, Fixed: fixedC11,
		QuickRuns: 4000, ThoroughRuns: 400000,
		Rule: "plan = (1..8 frames with lengths from {0,1,2,124..127,65534..65537,70000, random}, text/binary, network chunking/latency, sender pauses, cut offset | announced length and limit) from VERIF_SEED, " +
			"plus a fixed sweep of single frames of every boundary length x {text, binary}; non-trivial = at least one frame was delivered in more than one chunk (stream/cut) / the header was fully read (silence); distinct = distinct (length vector, chunking) x history digest",
		Assumptions: []string{
			"simulation applies to the stream framer only; single-packet and payload codecs are pure functions and are covered by the labelled enumeration below and, on the wire, by C01/C07/C13",
			"allocation in silence mode is the runtime.MemStats.TotalAlloc delta around the receiver's call (the sender wrote <= 9 bytes)",
		},
		Real: []string{"engine.io/transport/webtransport: send, nextPacket, limitedReader (verif exports)", "engine.io/parser: Packet.Encode / Decode / DecodeWithLen / EncodePayloads / DecodePayloads / EncodedLen / EncodedPayloadsLen"},
		Stub: append([]string{"the QUIC stream is a simulated TCP connection; WebTransport sessions themselves are not simulated"}, commonStub...),
	})
}

var c11Lens = []int64{0, 1, 2, 100, 124, 125, 126, 127, 128, 1000, 65534, 65535, 65536, 65537, 70000}

func genC11(p *sim.Plan, r *sim.Rand, tier string) {
	world.DrawNet(p, r)
	p.SetB("chunk", true)
	p.Stall = DrawStall(r, 100_000_000)
	switch p.Mode {
	case "stream", "cut":
		n := r.Range(1, 8)
		total := int64(0)
		at := int64(0)
		for i := 0; i < n; i++ {
			l := c11Lens[r.Intn(len(c11Lens))]
			if r.Bool(0.3) {
				l = int64(r.Intn(70001))
			}
			bin := int64(r.Intn(2))
			p.Ops = append(p.Ops, sim.Op{At: at, Actor: 0, Kind: "frame", I: []int64{l, bin, int64(i + 1)}})
			total += l + 9
			if r.Bool(0.3) {
				at += int64(r.LogDur(1, 20*time.Millisecond)) // a sender that pauses between (and, through stalls, inside) frames
			}
		}
		if p.Mode == "cut" {
			p.Faults = []sim.Fault{{At: -1, Kind: "cut", Target: "w#1", Dir: "c2s", I: []int64{r.I64n(total + 1)}}}
		}
		p.Horizon = at + int64(5*time.Second)
	case "silence":
		p.Set("limit", []int64{100, 1000, 100000}[r.Intn(3)])
		p.Set("form", int64(r.Intn(2))) // 0: 16-bit length, 1: 64-bit length
		p.Set("announce", []int64{50000, 65535, 1 << 20, 1 << 27}[r.Intn(4)])
		p.Horizon = int64(5 * time.Second)
	}
}

func fixedC11(tier string, seed uint64) []*sim.Plan {
	var out []*sim.Plan
	idx := 0
	for _, l := range c11Lens {
		for bin := int64(0); bin < 2; bin++ {
			p := sim.NewPlan("C11", "stream", seed, 5_000_000+idx)
			idx++
			p.Set("lat_us", 50)
			p.SetB("chunk", true)
			p.Ops = []sim.Op{{Kind: "frame", I: []int64{l, bin, 1}}, {Kind: "frame", I: []int64{3, 0, 2}}}
			p.Horizon = int64(2 * time.Second)
			p.CfgS["fixed"] = fmt.Sprintf("len=%d bin=%d", l, bin)
			out = append(out, p)
		}
	}
	return out
}

func c11Data(l, id int64, bin bool) []byte {
	b := make([]byte, l)
	for i := range b {
		if bin {
			b[i] = byte(int64(i)*7 + id)
		} else {
			b[i] = 'a' + byte((int64(i)+id)%26)
		}
	}
	return b
}

func c11Pipe(e *sim.Env) (w *world.World, cli, srv net.Conn) {
	w = world.New(e, world.NetConfigFromPlan(e.Plan))
	l := w.Net.Listen("peer:1")
	acc := make(chan net.Conn, 1)
	go func() {
		c, err := l.Accept()
		if err == nil {
			acc <- c
		}
	}()
	c, err := w.Net.Dialer("w")(context.Background(), "tcp", "peer:1")
	if err != nil {
		e.Violate("harness/dial", "c11", "%v", err)
		return w, nil, nil
	}
	return w, c, <-acc
}

func runC11(e *sim.Env) {
	if e.Plan.Mode == "silence" {
		runC11Silence(e)
		return
	}
	p := e.Plan
	w, cli, srv := c11Pipe(e)
	if cli == nil {
		return
	}
	w.Net.Schedule(p.Faults)
	type got struct {
		pk  *eioparser.Packet
		err error
	}
	var recv []got
	recvDone := false
	e.Go(func() {
		r := webtransport.VerifNewLimitedReader(srv, 1<<30)
		for {
			pk, err := webtransport.VerifNextPacket(r)
			recv = append(recv, got{pk, err})
			if err != nil {
				recvDone = true
				return
			}
			e.Log(1, "recv", "type=%d bin=%v len=%d", pk.Type, pk.IsBinary, len(pk.Data))
		}
	})
	var sendErr error
	sent := 0
	e.Go(func() {
		for _, op := range p.Ops {
			e.SleepUntil(op.At)
			bin := op.Int(1) == 1
			pk, _ := eioparser.NewPacket(eioparser.PacketTypeMessage, bin, c11Data(op.Int(0), op.Int(2), bin))
			if err := webtransport.VerifSend(cli, pk); err != nil {
				sendErr = err
				return
			}
			sent++
		}
		cli.Close()
	})
	time.Sleep(time.Duration(p.Horizon))
	_ = sendErr
	if !recvDone {
		e.Violate("C11/reader-hung", p.Mode, "the receiver is still blocked %v after the sender finished / the stream was cut (%d packets so far)", time.Duration(p.Horizon), len(recv))
		return
	}
	// ---- oracle: the received sequence is a prefix of what was sent, frame by frame identical; then an error
	cutFired := e.FaultCount("cut") > 0
	for i, g := range recv {
		if g.err != nil {
			break
		}
		e.Check()
		if i >= len(p.Ops) {
			e.Violate("C11/phantom-frame", p.Mode, "receiver got a %d-th packet (%d bytes) although only %d were sent", i+1, len(g.pk.Data), len(p.Ops))
			break
		}
		op := p.Ops[i]
		bin := op.Int(1) == 1
		want := c11Data(op.Int(0), op.Int(2), bin)
		// on a text frame the first byte on the wire is the packet type
		sig := fmt.Sprintf("len=%d bin=%v", op.Int(0), bin)
		switch {
		case op.Int(0)+boolInt(!bin) >= 65536:
			sig = "64-bit length form"
		}
		if g.pk.IsBinary != bin || g.pk.Type != eioparser.PacketTypeMessage || !bytes.Equal(g.pk.Data, want) {
			cls := "C11/frame-altered"
			if cutFired && i == len(recv)-2 {
				cls = "C11/wrong-packet-after-cut"
			}
			e.Violate(cls, sig, "frame %d (sent: binary=%v, %d bytes) arrived as type=%d binary=%v, %d bytes%s", i+1, bin, len(want), g.pk.Type, g.pk.IsBinary, len(g.pk.Data), diffAt(g.pk.Data, want))
			break
		}
	}
	okFrames := 0
	for _, g := range recv {
		if g.err == nil {
			okFrames++
		}
	}
	e.Check()
	if !cutFired && okFrames != len(p.Ops) && !e.Violated() {
		e.Violate("C11/frames-missing", p.Mode, "%d frames sent on an intact stream, %d decoded, then: %v", len(p.Ops), okFrames, recv[len(recv)-1].err)
	}
	if last := recv[len(recv)-1]; !cutFired && last.err != io.EOF && !e.Violated() {
		e.Violate("C11/unexpected-error", p.Mode, "intact stream closed by the sender, receiver ended with %v", last.err)
	}
	var conn *simnet.Conn
	for _, c := range w.Net.Conns() {
		conn = c
	}
	if conn != nil {
		e.NonTrivial()
	}
	var ls []string
	for _, op := range p.Ops {
		ls = append(ls, fmt.Sprint(op.Int(0)))
	}
	e.Shape(p.Mode + " " + strings.Join(ls, ","))
	e.Sample = map[string]any{"mode": p.Mode, "frame_lengths": ls, "decoded": okFrames, "cut": p.Faults, "fixed": p.CfgS["fixed"]}
}

func boolInt(b bool) int64 {
	if b {
		return 1
	}
	return 0
}

func diffAt(a, b []byte) string {
	for i := 0; i < len(a) && i < len(b); i++ {
		if a[i] != b[i] {
			return fmt.Sprintf(" (first difference at byte %d)", i)
		}
	}
	return ""
}

func runC11Silence(e *sim.Env) {
	p := e.Plan
	limit := p.C("limit")
	_, cli, srv := c11Pipe(e)
	if cli == nil {
		return
	}
	announce := p.C("announce")
	var hdr []byte
	if p.C("form") == 0 {
		if announce > 65535 {
			announce = 65535
		}
		hdr = []byte{0x80 | 126, byte(announce >> 8), byte(announce)}
	} else {
		hdr = []byte{0x80 | 127, 0, 0, 0, 0, byte(announce >> 24), byte(announce >> 16), byte(announce >> 8), byte(announce)}
	}
	cli.Write(hdr)
	var alloc uint64
	done := false
	var err error
	e.Go(func() {
		r := webtransport.VerifNewLimitedReader(srv, limit)
		var m0, m1 runtime.MemStats
		runtime.ReadMemStats(&m0)
		go func() { time.Sleep(time.Second); cli.Close() }() // the silence ends with the stream
		_, err = webtransport.VerifNextPacket(r)
		runtime.ReadMemStats(&m1)
		alloc = m1.TotalAlloc - m0.TotalAlloc
		done = true
	})
	time.Sleep(time.Duration(p.Horizon))
	e.Check()
	if !done {
		e.Violate("C11/reader-hung", "silence", "reader still blocked after the stream was closed")
		return
	}
	if err == nil {
		e.Violate("C11/packet-from-nothing", "silence", "a header announcing %d bytes followed by EOF produced a packet", announce)
	}
	if int64(alloc) > limit+64<<10 {
		e.Violate("C11/alloc-beyond-limit", fmt.Sprintf("form=%d", p.C("form")), "limit %d: a frame header announcing %d bytes made the reader allocate %d bytes before any payload arrived", limit, announce, alloc)
	}
	e.NonTrivial()
	e.Shape(fmt.Sprintf("silence form%d", p.C("form")))
	e.Sample = map[string]any{"mode": "silence", "limit": limit, "announced": announce, "allocated": alloc, "error": fmt.Sprint(err)}
}

// enumC11: pure-input part (labelled, not simulation): packet and payload codecs against a reference
// encoder written from the Engine.IO v4 document; arbitrary bytes into the decoders.
func enumC11(tier string, seed uint64) []EnumResult {
	var out []EnumResult
	// 1. single packets: every type x text, binary message; sizes incl. empties; b64 and raw modes
	res := EnumResult{Name: "Packet.Encode/Decode/EncodedLen: every packet type x data lengths 0..40 and 1000 x {binary-capable, base64} against the v4 reference encoding", Exhaustive: true}
	lens := []int{}
	for i := 0; i <= 40; i++ {
		lens = append(lens, i)
	}
	lens = append(lens, 1000)
	viol := map[string]bool{}
	add := func(r *EnumResult, cls, sig, detail string) {
		if !viol[cls+sig] {
			viol[cls+sig] = true
			r.Violations = append(r.Violations, sim.Violation{Class: cls, Sig: sig, Detail: detail})
		}
	}
	for t := eioparser.PacketTypeOpen; t <= eioparser.PacketTypeNoop; t++ {
		for _, l := range lens {
			for _, isBin := range []bool{false, true} {
				if isBin && t != eioparser.PacketTypeMessage {
					continue
				}
				for _, supports := range []bool{true, false} {
					res.Cases++
					data := c11Data(int64(l), int64(t), isBin)
					pk, err := eioparser.NewPacket(t, isBin, data)
					if err != nil {
						continue
					}
					var buf bytes.Buffer
					if err := pk.Encode(&buf, supports); err != nil {
						add(&res, "C11/encode-error", "packet", err.Error())
						continue
					}
					// reference
					var want []byte
					switch {
					case isBin && supports:
						want = data
					case isBin:
						want = append([]byte("b"), []byte(base64.StdEncoding.EncodeToString(data))...)
					default:
						want = append([]byte{'0' + byte(t)}, data...)
					}
					if !bytes.Equal(buf.Bytes(), want) {
						add(&res, "C11/not-v4", "packet", fmt.Sprintf("type=%d binary=%v supportsBinary=%v len=%d encodes to %.40q, v4 says %.40q", t, isBin, supports, l, buf.Bytes(), want))
					}
					if pk.EncodedLen(supports) != buf.Len() {
						add(&res, "C11/encoded-len", "packet", fmt.Sprintf("type=%d binary=%v supportsBinary=%v len=%d: EncodedLen %d, real %d", t, isBin, supports, l, pk.EncodedLen(supports), buf.Len()))
					}
					back, err := eioparser.Decode(bytes.NewReader(buf.Bytes()), isBin && supports)
					if err != nil || back.Type != t || back.IsBinary != isBin || !bytes.Equal(back.Data, data) {
						add(&res, "C11/round-trip", "packet", fmt.Sprintf("type=%d binary=%v supportsBinary=%v len=%d does not round-trip: %v %+v", t, isBin, supports, l, err, back))
					}
				}
			}
		}
	}
	res.Samples = []string{"type=4 binary=true supportsBinary=false len=3 -> \"bAAEC\"-style base64"}
	out = append(out, res)

	// 2. payloads of 0..4 packets
	res2 := EnumResult{Name: "EncodePayloads/DecodePayloads/EncodedPayloadsLen: every sequence of 1..4 packets from a pool of 7 (incl. empty data, binary, data containing no separator)", Exhaustive: true}
	pool := []*eioparser.Packet{}
	mk := func(t eioparser.PacketType, bin bool, d string) {
		p, _ := eioparser.NewPacket(t, bin, []byte(d))
		pool = append(pool, p)
	}
	mk(eioparser.PacketTypeMessage, false, "hello")
	mk(eioparser.PacketTypeMessage, false, "")
	mk(eioparser.PacketTypeMessage, true, "\x00\x01\x1e\xff")
	mk(eioparser.PacketTypeMessage, true, "")
	mk(eioparser.PacketTypePing, false, "probe")
	mk(eioparser.PacketTypeNoop, false, "")
	mk(eioparser.PacketTypeMessage, false, "ünï")
	var rec func(seq []*eioparser.Packet)
	rec = func(seq []*eioparser.Packet) {
		if len(seq) > 0 {
			res2.Cases++
			var buf bytes.Buffer
			if err := eioparser.EncodePayloads(&buf, seq...); err != nil {
				add(&res2, "C11/encode-error", "payload", err.Error())
			} else {
				var parts []string
				for _, p := range seq {
					if p.IsBinary {
						parts = append(parts, "b"+base64.StdEncoding.EncodeToString(p.Data))
					} else {
						parts = append(parts, string('0'+byte(p.Type))+string(p.Data))
					}
				}
				want := strings.Join(parts, "\x1e")
				if buf.String() != want {
					add(&res2, "C11/not-v4", "payload", fmt.Sprintf("%d packets encode to %.60q, v4 says %.60q", len(seq), buf.String(), want))
				}
				if eioparser.EncodedPayloadsLen(seq...) != buf.Len() {
					add(&res2, "C11/encoded-len", "payload", fmt.Sprintf("%d packets: EncodedPayloadsLen %d, real %d", len(seq), eioparser.EncodedPayloadsLen(seq...), buf.Len()))
				}
				back, err := eioparser.DecodePayloads(bytes.NewReader(buf.Bytes()))
				same := err == nil && len(back) == len(seq)
				for i := 0; same && i < len(seq); i++ {
					same = back[i].Type == seq[i].Type && back[i].IsBinary == seq[i].IsBinary && bytes.Equal(back[i].Data, seq[i].Data)
				}
				if !same {
					add(&res2, "C11/round-trip", "payload", fmt.Sprintf("payload %.60q does not round-trip (err %v, %d packets back)", buf.String(), err, len(back)))
				}
			}
		}
		if len(seq) == 4 {
			return
		}
		for _, p := range pool {
			rec(append(append([]*eioparser.Packet(nil), seq...), p))
		}
	}
	rec(nil)
	res2.Samples = []string{"[message 'hello', binary 00 01 1e ff, noop]"}
	out = append(out, res2)

	// 3. arbitrary bytes into the decoders: no panic
	maxLen := 3
	if tier == "thorough" {
		maxLen = 4
	}
	res3 := EnumResult{Name: fmt.Sprintf("Decode / DecodePayloads / nextPacket on every byte string of length <= %d over 12 significant bytes: no panic", maxLen), Exhaustive: true}
	alpha := []byte{0, 1, 0x1e, '0', '4', '6', '7', 'b', 'A', '=', 0x7e, 0xff}
	buf := make([]byte, maxLen)
	var rec3 func(k int)
	try := func(name string, in []byte, f func()) {
		defer func() {
			if r := recover(); r != nil {
				add(&res3, "C11/decoder-panic", name, fmt.Sprintf("%s panicked on %q: %v", name, in, r))
			}
		}()
		f()
	}
	rec3 = func(k int) {
		in := append([]byte(nil), buf[:k]...)
		res3.Cases++
		try("Decode", in, func() { eioparser.Decode(bytes.NewReader(in), false) })
		try("DecodeBinary", in, func() { eioparser.Decode(bytes.NewReader(in), true) })
		try("DecodePayloads", in, func() { eioparser.DecodePayloads(bytes.NewReader(in)) })
		try("nextPacket", in, func() { webtransport.VerifNextPacket(bytes.NewReader(in)) })
		if k == maxLen {
			return
		}
		for _, c := range alpha {
			buf[k] = c
			rec3(k + 1)
		}
	}
	rec3(0)
	res3.Samples = []string{`"b="`, `"\x7e\x00"`}
	out = append(out, res3)
	return out
}
