package props

import (
	"encoding/json"
	"fmt"
	"net/http"
	"sort"
	"strings"
	"sync"
	"sync/atomic"
	"time"

	mapset "github.com/deckarep/golang-set/v2"
	sio "github.com/karagenc/socket.io-go"

	"verif/dst/sim"
	"verif/dst/world"
)

// C06 — every connection end is reported exactly once and leaves nothing on the server.
//
// One plan = termination cause(s) x phase. The victim is client 0; client 1 is a bystander that must
// stay connected and usable. Fixed sweep: the victim's connections cut at byte k.

var c06Causes = []string{"cli_disconnect", "mgr_close", "srv_disc_false", "srv_disc_true", "disc_sockets_false", "disc_sockets_true", "server_close", "cut", "fin", "blackhole"}
var c06Phases = []string{"idle", "burst", "upgrade", "middleware", "preconnect", "opening", "joining"}

func init() {
	Register(&Property{
		ID: "C06", Title: "Every connection end is reported exactly once and leaves nothing on the server",
		Level: "fault_enumeration",
		Modes: []Mode{{Name: "end", Weight: 1}},
		Gen:   genC06, Run: runC06, Fixed: fixedC06,
		QuickRuns: 5000, ThoroughRuns: 80000,
		Rule: "plan = (transport, recovery on/off, ping values 1..3 s, 1..2 termination causes out of {client Disconnect, manager Close, server Disconnect(false/true), DisconnectSockets(false/true), Server.Close, cut, fin, black-hole} at one instant, " +
			"phase out of {idle, mid-burst, during upgrade, while a namespace middleware sleeps, before CONNECT}, network and stall parameters) from VERIF_SEED, plus a fixed sweep: the victim's polling and WebSocket connections cut at byte k of either direction; " +
			"non-trivial = the cause fired on a session that had reached the intended phase; distinct = distinct (cause set, phase, transport, recovery) x history digest",
		Assumptions: []string{
			"reason sets per cause are deliberately generous (e.g. a cut on polling may only surface as ping timeout); two simultaneous causes allow the union",
			"settle time = 40 s of fake time, above pingInterval+pingTimeout (<= 6 s), ConnectTimeout (2 s) and the 10 s the library waits for disconnecting handlers",
		},
		Real: commonReal, Stub: commonStub,
	})
}

func genC06(p *sim.Plan, r *sim.Rand, tier string) {
	world.DrawNet(p, r)
	if p.C("lat_us") > 35000 {
		p.Set("lat_us", 35000)
		p.Set("jit_us", 5000)
	}
	p.Stall = DrawStall(r, 300_000_000)
	p.Set("tr", int64(r.Intn(3)))
	p.SetB("recovery", r.Bool(0.35))
	p.Set("ping_interval_ms", int64(r.Range(1, 3))*1000)
	p.Set("ping_timeout_ms", int64(r.Range(1, 3))*1000)
	phase := c06Phases[r.Weighted([]int{3, 3, 2, 3, 1, 3, 2})]
	p.CfgS["phase"] = phase
	c1 := c06Causes[r.Intn(len(c06Causes))]
	p.CfgS["cause1"] = c1
	if r.Bool(0.25) {
		p.CfgS["cause2"] = c06Causes[r.Intn(len(c06Causes))]
	}
	if phase == "opening" || phase == "joining" {
		// the windows of connection establishment: API-level causes, stalls concentrated on the
		// code that opens, admits and closes
		p.CfgS["cause1"] = c06Causes[r.Intn(7)]
		if phase == "opening" && r.Bool(0.4) {
			// the client's own calls racing with its own connection attempt
			p.CfgS["cause1"] = c06Causes[r.Intn(2)]
		}
		if p.CfgS["cause2"] != "" {
			p.CfgS["cause2"] = c06Causes[r.Intn(7)]
		}
		p.Stall = DrawStall(r, 300_000_000)
		p.Stall.Focus = []string{"client_manager_conn.go", "client_manager.go", "client_socket.go", "namespace.go", "server_conn.go", "server_socket.go", "store.go"}
		p.Stall.SitePct = []int{100, 50, 25}[r.Intn(3)]
		p.Stall.RatePPM = []int{20000, 100000, 300000}[r.Intn(3)]
		p.Stall.MaxNs = []int64{1000, 1_000_000, 20_000_000}[r.Intn(3)]
		if c := p.CfgS["cause1"]; phase == "joining" && (c == "cli_disconnect" || c == "mgr_close") {
			// the client's own call against the arrival of its CONNECT reply
			p.Stall.Focus = []string{"client_socket.go", "client_manager.go", "ordered_runner.go"}
			p.Stall.SitePct = 100
			p.Stall.RatePPM = []int{100000, 300000}[r.Intn(2)]
			p.Stall.MaxNs = []int64{100_000, 2_000_000, 20_000_000}[r.Intn(3)]
		} else if phase == "joining" && r.Bool(0.6) {
			// the handler's Join calls against the close: both live in server_socket.go
			p.Stall.Focus = []string{"server_socket.go"}
			p.Stall.SitePct = 100
			p.Stall.RatePPM = []int{100000, 300000}[r.Intn(2)]
			p.Stall.MaxNs = []int64{1_000_000, 20_000_000}[r.Intn(2)]
		}
	}
	switch phase {
	case "idle":
		p.Set("cause_at", int64(r.Range(200, 4000))*1_000_000)
	case "burst":
		p.Set("cause_at", int64(r.Range(300, 1500))*1_000_000)
	case "upgrade":
		p.Set("tr", 2)
		p.Set("cause_at", r.I64n(10*(2*p.C("lat_us")*1000+500_000)))
	case "middleware":
		p.Set("mw_sleep_ms", int64(r.Range(100, 1500)))
		p.Set("cause_at", r.I64n(p.C("mw_sleep_ms")*1_000_000)+6*(p.C("lat_us")*1000))
	case "preconnect":
		p.Set("cause_at", int64(r.Range(0, 3000))*1_000_000)
	case "opening":
		// from the Connect call to a few round trips later: dialing, CONNECT in flight, admission
		p.Set("cause_at", r.I64n(5*(2*p.C("lat_us")*1000+100_000))*int64(r.Intn(4))/3)
		if r.Bool(0.3) {
			p.Set("cause_at", r.I64n(2000)) // right behind the Connect call
		}
	case "joining":
		// reactive: the cause fires when the victim's connection handler starts (it joins rooms) -
		// for the client's own calls, about one network latency later: when the CONNECT reply arrives
		p.Set("cause_at", 0)
		if c := p.CfgS["cause1"]; c == "cli_disconnect" || c == "mgr_close" {
			p.Set("cause_delay", p.C("lat_us")*1000*int64(r.Range(5, 16))/10+r.I64n(100_000))
		}
	}
	p.Set("dir", int64(r.Intn(3)))
	// a black-holed established connection with data in flight is eventually failed by the kernel
	// (retransmission time-out); without it a handshake request into a black hole would wait forever
	p.Set("keepalive_s", 120)
	p.Horizon = p.C("cause_at") + int64(45*time.Second)
}

func fixedC06(tier string, seed uint64) []*sim.Plan {
	step := 37
	if tier == "thorough" {
		step = 1
	}
	var out []*sim.Plan
	idx := 0
	for _, conn := range []string{"c0p#1", "c0p#2", "c0w#1"} {
		for _, dir := range []string{"c2s", "s2c"} {
			max := 1200
			for k := 0; k <= max; k += step {
				p := sim.NewPlan("C06", "end", seed, 3_000_000+idx)
				idx++
				p.Set("lat_us", 2000)
				p.SetB("chunk", true)
				p.Set("tr", 2)
				p.SetB("recovery", idx%2 == 0)
				p.Set("ping_interval_ms", 1000)
				p.Set("ping_timeout_ms", 1000)
				p.CfgS["phase"] = "burst"
				p.CfgS["cause1"] = "none"
				p.Set("cause_at", int64(1500*time.Millisecond))
				p.Faults = []sim.Fault{{At: -1, Kind: "cut", Target: conn, Dir: dir, I: []int64{int64(k)}}}
				p.CfgS["fixed"] = fmt.Sprintf("cut %s %s byte %d", conn, dir, k)
				p.Horizon = int64(47 * time.Second)
				out = append(out, p)
			}
		}
	}
	return out
}

var c06SrvAllowed = map[string][]string{
	"cli_disconnect":     {"client namespace disconnect", "transport close", "transport error"},
	"mgr_close":          {"transport close", "transport error", "client namespace disconnect"},
	"srv_disc_false":     {"server namespace disconnect"},
	"srv_disc_true":      {"server namespace disconnect", "forced server close", "forced close"},
	"disc_sockets_false": {"server namespace disconnect"},
	"disc_sockets_true":  {"server namespace disconnect", "forced server close", "forced close"},
	"server_close":       {"server shutting down", "forced close"},
	"cut":                {"transport close", "transport error", "ping timeout"},
	"fin":                {"transport close", "transport error", "ping timeout"},
	"blackhole":          {"ping timeout", "transport close", "transport error"},
	"none":               {},
}

var c06CliAllowed = map[string][]string{
	"cli_disconnect": {"io client disconnect", "forced close", "transport close", "transport error"},
	"mgr_close":      {"forced close", "io client disconnect"},
	// (events in flight when the server disconnects the namespace reach it without a socket: "invalid
	// state", the server closes the whole connection - the reference server does the same)
	"srv_disc_false":     {"io server disconnect", "transport close", "transport error"},
	"srv_disc_true":      {"io server disconnect", "transport close", "transport error"},
	"disc_sockets_false": {"io server disconnect", "transport close", "transport error"},
	"disc_sockets_true":  {"io server disconnect", "transport close", "transport error"},
	"server_close":       {"transport close", "transport error", "io server disconnect", "ping timeout"},
	"cut":                {"transport close", "transport error", "ping timeout"},
	"fin":                {"transport close", "transport error", "ping timeout"},
	"blackhole":          {"ping timeout", "transport close", "transport error"},
	"none":               {},
}

func runC06(e *sim.Env) {
	p := e.Plan
	phase := p.CS("phase")
	causes := []string{p.CS("cause1")}
	if c2 := p.CS("cause2"); c2 != "" && c2 != causes[0] {
		causes = append(causes, c2)
	}
	if len(p.Faults) > 0 {
		causes = append(causes, "cut")
	}
	w := world.New(e, world.NetConfigFromPlan(p))
	reg := w.NewSrvReg()
	var mu sync.Mutex
	sidsByClient := map[string][]string{} // dialer prefix -> eio sids seen in requests
	mwRunning := int64(-1)
	mwSleep := world.Ms(p.C("mw_sleep_ms"))
	var srv *sio.Server
	configure := func(s *sio.Server) {
		reg.Watch(s.Of("/"))
		if phase == "middleware" {
			s.Of("/").Use(func(socket sio.ServerSocket, h *sio.Handshake) any {
				var a struct {
					Victim bool `json:"victim"`
				}
				json.Unmarshal(h.Auth, &a)
				if a.Victim {
					mu.Lock()
					mwRunning = e.Now()
					mu.Unlock()
					e.Log(200, "srv.mw", "sleeping %v", mwSleep)
					time.Sleep(mwSleep)
				}
				return nil
			})
		}
	}
	joinGate := make(chan struct{})
	var gateOnce sync.Once
	victimStarted := false
	reg.OnNew = func(s *world.SrvSock) {
		mu.Lock()
		isVictim := victimStarted
		mu.Unlock()
		if phase == "joining" && isVictim {
			gateOnce.Do(func() { close(joinGate) })
		}
		if phase == "joining" && isVictim {
			for k := 0; k < 6; k++ {
				s.Socket.Join(sio.Room(fmt.Sprintf("j%d", k)))
			}
		}
		s.Socket.Join("lobby", sio.Room("r-"+string(s.Socket.ID())))
		s.Socket.OnEvent("up", func(n int) {})
	}
	scfg := w.ServerConfig(world.ServerOpts{Recovery: p.B("recovery"), MaxDisconnect: 5 * time.Second, ConnectTimeout: 2 * time.Second,
		PingInterval: world.Ms(p.C("ping_interval_ms")), PingTimeout: world.Ms(p.C("ping_timeout_ms")), UpgradeTimeout: 3 * time.Second})
	srv = sio.NewServer(scfg)
	configure(srv)
	if err := srv.Run(); err != nil {
		e.Violate("harness/server-run", "world", "%v", err)
		return
	}
	w.Serve(http.HandlerFunc(func(rw http.ResponseWriter, r *http.Request) {
		if sid := r.URL.Query().Get("sid"); sid != "" {
			who := r.RemoteAddr
			if i := strings.IndexAny(who, "pw#"); i > 0 {
				who = who[:i]
			}
			mu.Lock()
			found := false
			for _, s := range sidsByClient[who] {
				found = found || s == sid
			}
			if !found {
				sidsByClient[who] = append(sidsByClient[who], sid)
			}
			mu.Unlock()
		}
		srv.ServeHTTP(rw, r)
	}))
	w.Net.Schedule(p.Faults)

	trs := world.Transports(p.C("tr"))
	bystander := w.NewSioClient(1, "/", world.ClientOpts{Transports: trs, NoReconnection: true}, nil)
	bystander.Socket.OnEvent("down", func(n int) {})
	bystander.Socket.Connect()

	var victim *world.SioClient
	var raw *world.RawPeer
	var rawSID string
	if phase == "preconnect" {
		// an Engine.IO session that never sends CONNECT
		raw = w.NewRawPeer("c0")
		hs, resp := raw.Handshake("")
		if hs == nil {
			e.Violate("C06/raw-handshake-failed", "setup", "%v %d", resp.Err, resp.Status)
			return
		}
		rawSID = hs.SID
		e.Go(func() {
			for i := 0; i < 40; i++ {
				if r := raw.Poll(rawSID); r.Err != nil || r.Status != 200 {
					return
				}
			}
		})
	} else {
		victim = w.NewSioClient(0, "/", world.ClientOpts{Transports: trs, NoReconnection: true}, &sio.ClientSocketConfig{Auth: map[string]any{"victim": true}})
		victim.Socket.OnEvent("down", func(n int) {})
		if phase == "joining" {
			// the bystander first: the next connection handler to run is the victim's
			world.WaitUntil(20*time.Second, func() bool { return bystander.Socket.Connected() && len(reg.All()) == 1 })
		}
		mu.Lock()
		victimStarted = true
		mu.Unlock()
		victim.Socket.Connect()
	}
	start := e.Now()
	causeAt := start + p.C("cause_at")

	if phase == "burst" && victim != nil {
		e.Go(func() {
			for i := 0; e.Now() < causeAt+int64(200*time.Millisecond); i++ {
				if victim.Socket.Connected() {
					victim.Socket.Emit("up", i)
				}
				time.Sleep(3 * time.Millisecond)
			}
		})
		e.Go(func() {
			for i := 0; e.Now() < causeAt+int64(200*time.Millisecond); i++ {
				srv.Of("/").Emit("down", i)
				time.Sleep(5 * time.Millisecond)
			}
		})
	}

	// ---- the cause(s), all at the same fake instant
	if phase == "joining" {
		select {
		case <-joinGate:
		case <-time.After(20 * time.Second):
		}
		time.Sleep(time.Duration(p.C("cause_delay")))
		causeAt = e.Now()
	} else {
		e.SleepUntil(causeAt)
	}
	victimSrv := func() sio.ServerSocket {
		if victim == nil {
			return nil
		}
		if s := reg.ByID(victim.Socket.ID(), "/"); s != nil {
			return s.Socket
		}
		return nil
	}
	reached := false
	switch phase {
	case "idle", "burst":
		reached = victim.Socket.Connected()
	case "upgrade", "opening":
		reached = true
	case "joining":
		select {
		case <-joinGate:
			reached = true
		default:
		}
	case "middleware":
		mu.Lock()
		reached = mwRunning >= 0 && e.Now() < mwRunning+int64(mwSleep)
		mu.Unlock()
	case "preconnect":
		reached = true
	}
	serverClosed := false
	applied := false // was at least one cause actually carried out (a server-side Disconnect needs the socket to exist)
	appliedSrvDisc := false
	discWhilePending := false
	var srvDiscStalled atomic.Int64
	for _, cause := range causes {
		cause := cause
		dir := []string{"", "c2s", "s2c"}[p.C("dir")]
		e.Log(0, "cause", "%s (phase %s, reached=%v)", cause, phase, reached)
		switch cause {
		case "cli_disconnect":
			if victim != nil {
				applied = true
				// (a Disconnect made before the CONNECT reply is in: the client's DISCONNECT packet can
				// overtake its own CONNECT packet, which is sent from a goroutine; the server answers a
				// DISCONNECT for a namespace it has no socket in by closing the connection: "forced close")
				if !victim.Socket.Connected() {
					discWhilePending = true
				}
				e.Go(func() { id, _ := e.Invoke(0, "victim.Disconnect"); victim.Socket.Disconnect(); e.Return(0, id, "") })
			}
		case "mgr_close":
			if victim != nil {
				applied = true
				e.Go(func() { id, _ := e.Invoke(0, "manager.Close"); victim.Manager.Close(); e.Return(0, id, "") })
			}
		case "srv_disc_false", "srv_disc_true":
			if s := victimSrv(); s != nil {
				applied, appliedSrvDisc = true, true
				e.Go(func() {
					id, _ := e.Invoke(0, cause)
					from := e.Now()
					s.Disconnect(cause == "srv_disc_true")
					srvDiscStalled.Add(e.StallsOverlapping(from, e.Now()))
					e.Return(0, id, "")
				})
			}
		case "disc_sockets_false", "disc_sockets_true":
			if s := victimSrv(); s != nil {
				// the socket's own room: joined before the connection handler runs (the handler's
				// own Join("r-<id>") may still be in progress under a stall, and a socket that is
				// not yet in a room is rightly left alone by In(room).DisconnectSockets)
				room := sio.Room(s.ID())
				applied, appliedSrvDisc = true, true
				e.Go(func() {
					id, _ := e.Invoke(0, cause)
					from := e.Now()
					srv.Of("/").In(room).DisconnectSockets(cause == "disc_sockets_true")
					srvDiscStalled.Add(e.StallsOverlapping(from, e.Now()))
					e.Return(0, id, "")
				})
			}
		case "server_close":
			serverClosed = true
			applied = true
			e.Go(func() { id, _ := e.Invoke(0, "Server.Close"); srv.Close(); e.Return(0, id, "") })
		case "cut":
			applied = true
			if len(p.Faults) == 0 {
				w.Net.Apply(sim.Fault{Kind: "cut", Target: "c0*"})
			}
		case "fin":
			applied = true
			w.Net.Apply(sim.Fault{Kind: "fin", Target: "c0*"})
		case "blackhole":
			applied = true
			w.Net.Apply(sim.Fault{Kind: "blackhole", Target: "c0*", Dir: dir})
		}
	}

	time.Sleep(40 * time.Second)
	e.StopStalls()

	// ---- oracle
	if pend := e.Pending(); len(pend) > 0 {
		// a call may legitimately wait for a dial into a black hole (bounded by the simulated kernel's
		// connect time-out, 127 s): give it that long before calling it a hang
		time.Sleep(400 * time.Second)
		if pend = e.Pending(); len(pend) > 0 {
			e.Violate("C06/api-hang", strings.Join(causes, "+"), "calls that end a connection did not return within 440 s: %v; locks held: %v", pend, sim.HeldLocks())
		}
	}
	sig := fmt.Sprintf("%s @%s", strings.Join(causes, "+"), phase)
	allowedSrv, allowedCli := map[string]bool{}, map[string]bool{}
	for _, c := range causes {
		for _, r := range c06SrvAllowed[c] {
			allowedSrv[r] = true
		}
		for _, r := range c06CliAllowed[c] {
			allowedCli[r] = true
		}
	}
	if discWhilePending {
		allowedSrv["forced close"] = true
	}
	if srvDiscStalled.Load() > 0 {
		// Disconnect sends the DISCONNECT packet and closes the socket afterwards. When the calling
		// goroutine is held up in between for longer than a round trip, the client's reaction (it
		// closes the transport) reaches the socket first.
		allowedSrv["transport close"], allowedSrv["transport error"] = true, true
	}
	// A cut of ONE polling connection (the fixed sweep) need not end the session: net/http dials again.
	// Then nothing may be reported on either side and the victim must still work; if either side did
	// report an end, everything below applies.
	mustEnd := false
	for _, c := range causes {
		switch c {
		case "cut", "fin", "none":
			// net/http retries an idempotent poll on a fresh connection: the session may live on
		case "srv_disc_false", "srv_disc_true", "disc_sockets_false", "disc_sockets_true":
			mustEnd = mustEnd || appliedSrvDisc
		default:
			mustEnd = true
		}
	}
	// cut / fin can take a packet with them (a DISCONNECT, a CONNECT reply): combined with another cause the
	// client may legitimately never learn of the end of its namespace while the Engine.IO session lives on
	lossy := false
	for _, c := range causes {
		lossy = lossy || c == "cut" || c == "fin"
	}
	if !mustEnd && victim != nil {
		srvEnded := false
		for _, s := range reg.All() {
			if s.Socket.ID() != bystander.Socket.ID() {
				for _, ev := range s.Events() {
					srvEnded = srvEnded || ev.Kind == "disconnect"
				}
			}
		}
		if victim.Count("disconnect") == 0 && !srvEnded {
			e.Check()
			got := make(chan int, 1)
			if s := victimSrv(); s != nil {
				s.OnEvent("ping6", func(n int, ack func(int)) { ack(n + 1) })
			}
			victim.Socket.Emit("ping6", 5, func(n int) { got <- n })
			select {
			case <-got:
				e.Probe("cut-absorbed")
			case <-time.After(20 * time.Second):
				// A poll response that was cut takes the packets it carried with it (HTTP has no
				// retransmission): e.g. a lost CONNECT reply leaves the client connect-pending on a live
				// Engine.IO session. That is message loss under a fault, not an unreported end.
				e.Probe("cut-absorbed-but-packet-lost")
			}
			e.NonTrivial()
			e.Shape("absorbed " + p.CfgS["fixed"])
			e.Sample = map[string]any{"fixed": p.CfgS["fixed"], "outcome": "cut absorbed by a new HTTP connection; session alive"}
			return
		}
	}
	ended := true // did the victim's connection end (it must, unless the cause could not apply)
	if victim != nil {
		evs := victim.Events()
		// The statement is about sockets that had connected: with a connect handler run, exactly one
		// disconnect after it. (The socket's handlers run in one queue: a disconnection that races with
		// the arrival of the CONNECT reply is reported after the connect handlers, never before them.
		// A disconnect without any connect - Disconnect() on a socket that never connected - is what
		// the reference implementation does too.)
		nConn, nDisc := 0, 0
		for _, ev := range evs {
			switch ev.Kind {
			case "connect":
				nConn++
			case "disconnect":
				if nConn == 0 {
					continue
				}
				nDisc++
				e.Check()
				if !allowedCli[ev.Reason] && len(allowedCli) > 0 {
					e.Violate("C06/client-reason", sig+" -> "+ev.Reason, "client disconnect reason %q is not one the cause(s) %v can produce", ev.Reason, causes)
				}
			}
		}
		e.Check()
		open := nConn > 0 && nDisc == 0
		if nConn > 0 && nDisc > 1 {
			e.Violate("C06/client-disconnect-twice", sig, "client disconnect handler ran %d times for one connection: %v", nDisc, evs)
		}
		if open && reached && applied && mustEnd && !lossy {
			e.Violate("C06/client-end-not-reported", sig, "the client's connect handler ran, the connection ended (%v), its disconnect handler never ran: %v", causes, evs)
		}
		ended = !open
	}
	// server sockets: everything that is not the bystander's belongs to the victim
	byID := bystander.Socket.ID()
	var victimSocks []*world.SrvSock
	for _, s := range reg.All() {
		if s.Socket.ID() != byID {
			victimSocks = append(victimSocks, s)
		}
	}
	for _, s := range victimSocks {
		var nDisc, nDiscing int
		var discAt, discingAt int64 = -1, -1
		roomsAtDiscing := -1
		for _, ev := range s.Events() {
			switch ev.Kind {
			case "disconnect":
				nDisc++
				discAt = ev.At
				e.Check()
				if !allowedSrv[ev.Reason] && len(allowedSrv) > 0 {
					e.Violate("C06/server-reason", sig+" -> "+ev.Reason, "server socket %s disconnect reason %q is not one the cause(s) %v can produce", ev.ID, ev.Reason, causes)
				}
			case "disconnecting":
				nDiscing++
				discingAt = ev.At
				fmt.Sscanf(ev.Reason[strings.LastIndex(ev.Reason, "rooms=")+6:], "%d", &roomsAtDiscing)
			}
		}
		e.Check()
		id := s.Socket.ID()
		switch {
		case nDisc == 0 && !applied:
			e.Probe("cause-not-applicable")
			continue
		case nDisc == 0 && s.ClosedEarly:
			// closed before the application had attached its disconnect handler (the connection handler
			// runs on its own goroutine): there was nothing to call
			e.Probe("closed-before-handlers-attached")
		case nDisc == 0:
			e.Violate("C06/server-end-not-reported", sig, "server socket %s: connection handler ran at t=%d, the connection ended (%v), disconnect handler never ran (40 s later)", id, s.ConnAt, causes)
		case nDisc > 1:
			e.Violate("C06/server-disconnect-twice", sig, "server socket %s: disconnect handler ran %d times", id, nDisc)
		}
		if nDisc >= 1 {
			if nDiscing != 1 {
				e.Violate("C06/disconnecting-count", sig, "server socket %s: disconnecting ran %d times for %d disconnect", id, nDiscing, nDisc)
			} else if discingAt > discAt {
				e.Violate("C06/disconnecting-order", sig, "server socket %s: disconnecting (t=%d) after disconnect (t=%d)", id, discingAt, discAt)
			} else if roomsAtDiscing == 0 {
				e.Violate("C06/disconnecting-rooms", sig, "server socket %s: rooms already left when disconnecting ran", id)
			}
		}
		// nothing left on the server
		e.Check()
		if !serverClosed {
			for _, x := range srv.Of("/").Sockets() {
				if x.ID() == id {
					e.Violate("C06/left-in-namespace", sig, "socket %s is still listed by Namespace.Sockets() 40 s after its connection ended", id)
				}
			}
		}
		ad := srv.Of("/").Adapter()
		if rooms, ok := ad.SocketRooms(id); ok && rooms.Cardinality() > 0 {
			e.Violate("C06/left-in-rooms", sig, "socket %s still belongs to rooms %v after its connection ended", id, rooms.ToSlice())
		}
		for _, room := range []sio.Room{"lobby", sio.Room(id), sio.Room("r-" + string(id))} {
			if ad.Sockets(mapset.NewSet(room)).Contains(id) {
				e.Violate("C06/left-in-rooms", sig, "room %q still contains socket %s", room, id)
			}
		}
	}
	// Engine.IO sessions of the victim are unknown now
	probe := w.NewRawPeer("probe")
	mu.Lock()
	sids := append([]string(nil), sidsByClient["c0"]...)
	mu.Unlock()
	if rawSID != "" {
		sids = append(sids, rawSID)
	}
	sort.Strings(sids)
	if ended && !serverClosed && applied && !(lossy && victim != nil && victim.Count("disconnect") == 0) {
		for _, sid := range sids {
			e.Check()
			var r world.RawResp
			if !e.Try(30*time.Second, func() { r = probe.Do("GET", "EIO=4&transport=polling&sid="+sid, nil, 0, nil) }) {
				e.Violate("C06/sid-probe-hung", sig, "a poll with the ended session id %s was still pending after 30 s: the session is alive", sid)
				continue
			}
			if r.Status != 400 || !strings.Contains(string(r.Body), `"code":1`) {
				e.Violate("C06/sid-still-known", sig, "probe with the ended Engine.IO session id %s: status %d body %.80q (want 400 {\"code\":1})", sid, r.Status, r.Body)
			}
		}
	}
	// the bystander is untouched
	if !serverClosed {
		e.Check()
		if bystander.Count("disconnect") > 0 || !bystander.Socket.Connected() {
			e.Violate("C06/bystander-disconnected", sig, "another client's end disconnected the bystander: %v", bystander.Events())
		}
	}
	if reached && applied {
		e.NonTrivial()
	}
	e.Shape(fmt.Sprintf("%s tr%d rec%v socks%d", sig, p.C("tr"), p.B("recovery"), len(victimSocks)))
	e.Sample = map[string]any{"causes": causes, "phase": phase, "reached": reached, "transport": trs, "recovery": p.B("recovery"), "fixed": p.CfgS["fixed"],
		"victim_server_sockets": len(victimSocks), "victim_sids": sids}
}

func causeApplies(causes []string, haveVictim, connected bool) bool {
	for _, c := range causes {
		switch c {
		case "cut", "fin", "blackhole", "server_close", "mgr_close", "cli_disconnect":
			return true
		case "srv_disc_false", "srv_disc_true", "disc_sockets_false", "disc_sockets_true":
			if connected {
				return true
			}
		}
	}
	return false
}

func sig0(causes []string, phase string) string {
	return fmt.Sprintf("%s @%s", strings.Join(causes, "+"), phase)
}
