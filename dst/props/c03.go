package props

import (
	"bytes"
	"errors"
	"fmt"
	"sort"
	"strings"
	"sync"
	"time"

	sio "github.com/karagenc/socket.io-go"

	"verif/dst/sim"
	"verif/dst/world"
)

// C03 — acks fire at most once, exactly once with a time-out, and carry the right reply.
//
// Modes:
//   live      both directions on a live connection: many outstanding acks, reply delays around the
//             time-out (0, T-eps, exactly T, T+eps, never), 0..3 attachments, peers that call the ack
//             function twice, stalls on the ack paths
//   coincide  zero-latency network: the reply is produced exactly T (+-2 ns) after the emit
//   offline   the client emits before it is connected (buffered), connects before or after the time-out
//   cut       the link is cut while acks are outstanding
//   rawdup    a raw WebSocket server answers every emission with the same ACK packet two or three times

func init() {
	Register(&Property{
		ID: "C03", Title: "Acks fire at most once, exactly once with a timeout, and carry the right reply",
		Level: "exploration",
		Modes: []Mode{{Name: "live", Weight: 5}, {Name: "coincide", Weight: 3}, {Name: "offline", Weight: 3}, {Name: "cut", Weight: 2}, {Name: "rawdup", Weight: 1}},
		Gen:   genC03, Run: runC03,
		QuickRuns: 5000, ThoroughRuns: 300000,
		Rule: "plan = (transport, direction per emission, time-out T in {none, 50 ms, 200 ms, 1 s}, peer reply delay in {0, T-eps, T, T+eps, never}, 0..3 attachments in event and reply, peer acking twice, connect instant for offline emits, cut instant, network and stall parameters) from VERIF_SEED; " +
			"non-trivial = at least one reply and one time-out were decided within 2 ms of each other's deadline, or a buffered emission timed out / was flushed, or acks were outstanding at the cut; distinct = distinct history digest",
		Assumptions: []string{
			"when the peer's ack call and the timer are closer than the measured latency + overlapping stalls, either outcome is accepted - once",
			"a callback without time-out whose reply is lost (cut) is never called: that is 'at most once'",
		},
		Real: commonReal, Stub: commonStub,
	})
}

func genC03(p *sim.Plan, r *sim.Rand, tier string) {
	world.DrawNet(p, r)
	if p.C("lat_us") > 35000 {
		p.Set("lat_us", 35000)
		p.Set("jit_us", 3000)
	}
	p.Set("tr", int64(r.Intn(3)))
	p.Stall = DrawStall(r, 200_000_000, "handler.go", "client_socket.go", "server_socket.go")
	Ts := []int64{0, 50, 200, 1000}
	n := r.Range(2, 20)
	switch p.Mode {
	case "coincide":
		p.Set("lat_us", 0)
		p.Set("jit_us", 0)
		p.SetB("chunk", false)
		p.Set("tr", 1)
		if r.Bool(0.5) {
			p.Stall.RatePPM = 0
		}
		n = r.Range(1, 6)
	case "offline":
		p.Set("connect_at", int64(r.Range(1, 1500))*1_000_000)
	case "cut":
		p.Set("cut_at", int64(r.Range(5, 400))*1_000_000)
	}
	at := int64(0)
	for i := 0; i < n; i++ {
		T := Ts[r.Intn(len(Ts))]
		if p.Mode == "coincide" || p.Mode == "offline" {
			T = Ts[1+r.Intn(3)]
		}
		var delay int64 // ns the peer waits before acking; -1 = never
		switch r.Intn(6) {
		case 0:
			delay = 0
		case 1:
			delay = T*1_000_000 - int64(r.Range(1, 5000))*1000
		case 2:
			delay = T * 1_000_000
		case 3:
			delay = T*1_000_000 + int64(r.Range(1, 5000))*1000
		case 4:
			delay = -1
		default:
			delay = r.I64n(T*2_000_000 + 1_000_000)
		}
		if p.Mode == "coincide" {
			delay = T*1_000_000 + []int64{0, 0, 0, 1, -1, 2, -2}[r.Intn(7)]
		}
		if delay < -1 {
			delay = 0
		}
		side := int64(r.Intn(2))
		if p.Mode == "offline" {
			side = 0
		}
		p.Ops = append(p.Ops, sim.Op{At: at, Actor: int(side), Kind: "emit", I: []int64{int64(i + 1), side, T, delay, int64(r.Intn(4)), int64(r.Intn(6) / 5)}})
		if r.Bool(0.6) {
			at += int64(r.LogDur(1, 30*time.Millisecond))
		}
	}
	p.Horizon = at + int64(6*time.Second)
}

type c03Em struct {
	id        int64
	side      int64
	T         time.Duration
	delay     int64
	att       int
	twice     bool
	emitAt    int64
	ackAt     int64 // when the peer called its ack function (-1: never ran)
	handlerAt int64
	entries   []c03Entry
}

type c03Entry struct {
	at   int64
	err  error
	rid  int
	text string
	bin  []byte
}

func c03Payload(id int64, n int) []byte {
	b := make([]byte, 3+n*5)
	for i := range b {
		b[i] = byte(id*13 + int64(i))
	}
	return b
}

func runC03(e *sim.Env) {
	if e.Plan.Mode == "rawdup" {
		runC03RawDup(e)
		return
	}
	p := e.Plan
	w := world.New(e, world.NetConfigFromPlan(p))
	reg := w.NewSrvReg()
	var mu sync.Mutex
	ems := map[int64]*c03Em{}
	// the answering handlers, identical on both sides
	register := func(sock interface{ OnEvent(string, any) }) {
		sock.OnEvent("qt", func(id int, delay int, twice int, ack func(int, string)) {
			mu.Lock()
			em := ems[int64(id)]
			if em != nil {
				em.handlerAt = e.Now()
			}
			mu.Unlock()
			if delay < 0 {
				return
			}
			time.Sleep(time.Duration(delay))
			mu.Lock()
			if em != nil {
				em.ackAt = e.Now()
			}
			mu.Unlock()
			ack(id, fmt.Sprintf("reply-%d", id))
			if twice == 1 {
				ack(id+1000, "second call")
			}
		})
		sock.OnEvent("qb", func(id int, delay int, twice int, in sio.Binary, ack func(int, sio.Binary)) {
			mu.Lock()
			em := ems[int64(id)]
			if em != nil {
				em.handlerAt = e.Now()
			}
			mu.Unlock()
			if delay < 0 {
				return
			}
			time.Sleep(time.Duration(delay))
			mu.Lock()
			if em != nil {
				em.ackAt = e.Now()
			}
			mu.Unlock()
			out := append([]byte("R"), in...)
			ack(id, sio.Binary(out))
			if twice == 1 {
				ack(id+1000, sio.Binary("second"))
			}
		})
		sock.OnEvent("probe", func(n int, ack func(int)) { ack(n + 1) })
	}
	reg.OnNew = func(s *world.SrvSock) { register(s.Socket) }
	w.StartServer(world.ServerOpts{PingInterval: 25 * time.Second, PingTimeout: 20 * time.Minute, UpgradeTimeout: 20 * time.Minute,
		Configure: func(s *sio.Server) { reg.Watch(s.Of("/")) }})
	cli := w.NewSioClient(0, "/", world.ClientOpts{Transports: world.Transports(p.C("tr")), NoReconnection: true, UpgradeTimeout: 20 * time.Minute}, nil)
	register(cli.Socket)

	offline := p.Mode == "offline"
	connectAt := int64(0)
	if !offline {
		cli.Socket.Connect()
		if !world.WaitUntil(20*time.Second, func() bool { return cli.Socket.Connected() && len(reg.All()) == 1 }) {
			e.Violate("C03/connect-failed", "setup", "no connection")
			return
		}
		time.Sleep(20 * time.Millisecond)
	}
	base := e.Now()
	if offline {
		connectAt = base + p.C("connect_at")
		e.Go(func() {
			e.SleepUntil(connectAt)
			cli.Socket.Connect()
		})
	}
	cutAt := int64(-1)
	if p.Mode == "cut" {
		cutAt = base + p.C("cut_at")
		e.Go(func() {
			e.SleepUntil(cutAt)
			w.Net.Apply(sim.Fault{Kind: "blackhole", Target: "c0*"})
		})
	}
	emitter := func(side int64) sio.Socket {
		if side == 0 {
			return cli.Socket
		}
		all := reg.All()
		if len(all) == 0 {
			return nil
		}
		return all[0].Socket
	}
	byActor := map[int][]sim.Op{}
	for _, op := range p.Ops {
		byActor[op.Actor] = append(byActor[op.Actor], op)
	}
	for a, ops := range map[int][]sim.Op{0: byActor[0], 1: byActor[1]} {
		a, ops := a, ops
		if len(ops) == 0 {
			continue
		}
		e.Go(func() {
			for _, op := range ops {
				e.SleepUntil(base + op.At)
				em := &c03Em{id: op.Int(0), side: op.Int(1), T: world.Ms(op.Int(2)), delay: op.Int(3), att: int(op.Int(4)), twice: op.Int(5) == 1, ackAt: -1, handlerAt: -1}
				sock := emitter(em.side)
				if sock == nil {
					continue
				}
				mu.Lock()
				ems[em.id] = em
				mu.Unlock()
				record := func(err error, rid int, text string, bin []byte) {
					now := e.Now()
					mu.Lock()
					em.entries = append(em.entries, c03Entry{at: now, err: err, rid: rid, text: text, bin: bin})
					mu.Unlock()
					e.Log(a, "ack.cb", "#%d err=%v rid=%d", em.id, err, rid)
				}
				em.emitAt = e.Now()
				iid, _ := e.Invoke(a, fmt.Sprintf("emit #%d side=%d T=%v delay=%d att=%d", em.id, em.side, em.T, em.delay, em.att))
				twice := 0
				if em.twice {
					twice = 1
				}
				switch {
				case em.att == 0 && em.T > 0:
					sock.Timeout(em.T).Emit("qt", int(em.id), int(em.delay), twice, func(err error, rid int, s string) { record(err, rid, s, nil) })
				case em.att == 0:
					sock.Emit("qt", int(em.id), int(em.delay), twice, func(rid int, s string) { record(nil, rid, s, nil) })
				case em.T > 0:
					sock.Timeout(em.T).Emit("qb", int(em.id), int(em.delay), twice, sio.Binary(c03Payload(em.id, em.att)), func(err error, rid int, b sio.Binary) { record(err, rid, "", append([]byte(nil), b...)) })
				default:
					sock.Emit("qb", int(em.id), int(em.delay), twice, sio.Binary(c03Payload(em.id, em.att)), func(rid int, b sio.Binary) { record(nil, rid, "", append([]byte(nil), b...)) })
				}
				e.Return(a, iid, "emit")
			}
		})
	}
	time.Sleep(time.Duration(p.Horizon))
	e.StopStalls()

	// the socket is still usable: a fresh emit-with-ack completes (when the link is up)
	if p.Mode != "cut" {
		e.Check()
		got := make(chan int, 1)
		ok := e.Try(20*time.Second, func() {
			cli.Socket.Timeout(10*time.Second).Emit("probe", 7, func(err error, n int) {
				if err == nil {
					got <- n
				} else {
					got <- -1
				}
			})
		})
		if !ok {
			e.Violate("C03/socket-unusable", "emit-blocked", "after the acks, a fresh Emit on the same client socket did not return within 20 s; locks held: %v", sim.HeldLocks())
		} else {
			select {
			case n := <-got:
				if n != 8 {
					e.Violate("C03/socket-unusable", "probe-failed", "after the acks, a fresh emit-with-ack on the same socket got %d (want 8; -1 = time-out)", n)
				}
			case <-time.After(15 * time.Second):
				e.Violate("C03/socket-unusable", "probe-silent", "after the acks, a fresh emit-with-ack on the same socket got neither reply nor time-out")
			}
		}
	}
	time.Sleep(time.Second)

	// ---- oracle
	mu.Lock()
	defer mu.Unlock()
	lat := p.C("lat_us")*1000*2 + p.C("jit_us")*1000 + 200_000
	ids := make([]int64, 0, len(ems))
	for id := range ems {
		ids = append(ids, id)
	}
	sort.Slice(ids, func(i, j int) bool { return ids[i] < ids[j] })
	close := 0
	for _, id := range ids {
		em := ems[id]
		e.Check()
		sig := fmt.Sprintf("%s side=%d att=%d", p.Mode, em.side, minInt(em.att, 1))
		if len(em.entries) > 1 {
			e.Violate("C03/callback-twice", sig, "ack callback of emission #%d ran %d times: %+v (peer acked twice: %v)", id, len(em.entries), em.entries, em.twice)
			continue
		}
		sentAt := em.emitAt
		if offline && connectAt > sentAt {
			sentAt = connectAt // the packet can leave only once the socket is connected
		}
		deadline := em.emitAt + int64(em.T)
		if em.T > 0 {
			if len(em.entries) == 0 {
				e.Violate("C03/callback-never", sig, "emission #%d with time-out %v (emitted t=%d, peer acked at t=%d): the callback never ran, %v after the deadline; locks held: %v", id, em.T, em.emitAt, em.ackAt, time.Duration(e.Now()-deadline), sim.HeldLocks())
				continue
			}
			en := em.entries[0]
			slack := e.StallsOverlapping(em.emitAt, en.at) + lat + int64(time.Millisecond)
			if en.at > deadline+slack && (en.err != nil || em.ackAt < 0 || em.ackAt+lat < deadline) {
				e.Violate("C03/callback-late", sig, "emission #%d time-out %v: callback at t=%d, %v after the deadline t=%d (+%v slack)", id, em.T, en.at, time.Duration(en.at-deadline-slack), deadline, time.Duration(slack))
			}
		}
		if len(em.entries) == 0 {
			continue
		}
		en := em.entries[0]
		if en.err != nil {
			if !errors.Is(en.err, sio.ErrAckTimeout) {
				e.Violate("C03/wrong-error", sig, "emission #%d: callback error %v is not ErrAckTimeout", id, en.err)
			}
			if en.rid != 0 || en.text != "" || len(en.bin) != 0 {
				e.Violate("C03/timeout-with-values", sig, "emission #%d: time-out callback carries values rid=%d text=%q bin=%d bytes", id, en.rid, en.text, len(en.bin))
			}
			// a time-out although the reply was there in time?
			if em.ackAt >= 0 && p.Mode != "cut" {
				arrive := em.ackAt + lat
				// (on long-polling the reply waits for the next poll request: the response that is on its
				// way, the next request, its response - up to three one-way trips after the peer acked)
				slack := e.StallsOverlapping(em.emitAt, en.at) + 2*lat + int64(time.Millisecond)
				if arrive+slack < deadline {
					e.Violate("C03/timeout-despite-reply", sig, "emission #%d (time-out %v, deadline t=%d): the peer acked at t=%d, the reply reached the emitter by t=%d, yet the callback got ErrAckTimeout", id, em.T, deadline, em.ackAt, arrive)
				}
				if abs64(deadline-arrive) < 2_000_000 {
					close++
				}
			}
		} else {
			want := fmt.Sprintf("reply-%d", id)
			if en.rid != int(id) || (em.att == 0 && en.text != want) || (em.att > 0 && !bytes.Equal(en.bin, append([]byte("R"), c03Payload(id, em.att)...))) {
				e.Violate("C03/wrong-reply", sig, "emission #%d: callback carries rid=%d text=%q bin=%d bytes; the peer answered (%d, %q / R+payload)", id, en.rid, en.text, len(en.bin), id, want)
			}
			if em.T > 0 && em.ackAt >= 0 {
				slack := e.StallsOverlapping(em.emitAt, en.at) + lat + int64(time.Millisecond)
				if em.ackAt > deadline+slack {
					e.Violate("C03/reply-after-timeout", sig, "emission #%d (time-out %v): the peer acked only at t=%d, %v after the deadline, and the callback still got the reply instead of ErrAckTimeout", id, em.T, em.ackAt, time.Duration(em.ackAt-deadline))
				}
				if abs64(deadline-(em.ackAt+lat/2)) < 2_000_000 {
					close++
				}
			}
		}
	}
	// nothing of the ack paths left locked
	e.Check()
	var stuck []string
	for _, h := range sim.HeldLocks() {
		// (the Socket.IO level only: an Engine.IO Send may legitimately still hold its transport read lock
		// while a POST waits in a black hole, bounded by the HTTP response time-out)
		if strings.HasPrefix(h, "client_socket.go") || strings.HasPrefix(h, "server_socket.go") || strings.HasPrefix(h, "handler.go") {
			stuck = append(stuck, h)
		}
	}
	if len(stuck) > 0 {
		e.Violate("C03/mutex-left-held", strings.Split(stuck[0], " ")[0], "after everything settled these socket mutexes are still held: %v", stuck)
	}
	if close > 0 || offline || (cutAt >= 0 && len(ems) > 0) {
		e.NonTrivial()
	}
	e.Shape(fmt.Sprintf("%s n%d", p.Mode, len(ems)))
	e.Sample = map[string]any{"mode": p.Mode, "transport": world.Transports(p.C("tr")), "emissions": len(ems), "decided_within_2ms_of_deadline": close}
}

func minInt(a, b int) int {
	if a < b {
		return a
	}
	return b
}

func abs64(a int64) int64 {
	if a < 0 {
		return -a
	}
	return a
}

// runC03RawDup: the peer is a raw server that sends each ACK packet several times.
func runC03RawDup(e *sim.Env) {
	p := e.Plan
	w := world.New(e, world.NetConfigFromPlan(p))
	rs := w.StartRawWSServer()
	cli := w.NewSioClient(0, "/", world.ClientOpts{Transports: []string{"websocket"}, NoReconnection: true}, nil)
	cli.Socket.Connect()
	if !world.WaitUntil(20*time.Second, func() bool { return cli.Socket.Connected() && len(rs.All()) == 1 }) {
		e.Violate("C03/connect-failed", "setup", "no connection to the raw server")
		return
	}
	sess := rs.All()[0]
	var mu sync.Mutex
	calls := map[int64]int{}
	n := 0
	for _, op := range p.Ops {
		id := op.Int(0)
		n++
		T := world.Ms(op.Int(2))
		if T > 0 {
			cli.Socket.Timeout(T+time.Second).Emit("qt", int(id), 0, 0, func(err error, rid int, s string) { mu.Lock(); calls[id]++; mu.Unlock() })
		} else {
			cli.Socket.Emit("qt", int(id), 0, 0, func(rid int, s string) { mu.Lock(); calls[id]++; mu.Unlock() })
		}
	}
	// answer every EVENT packet that carries an ack id, 2..3 times
	world.WaitUntil(5*time.Second, func() bool { return len(sess.Frames()) >= n+1 })
	for _, f := range sess.Frames() {
		t := string(f.Data)
		if !strings.HasPrefix(t, "42") || len(t) < 4 {
			continue
		}
		j := 2
		for j < len(t) && t[j] >= '0' && t[j] <= '9' {
			j++
		}
		if j == 2 {
			continue
		}
		ackID := t[2:j]
		var id int
		fmt.Sscanf(t[j:], "[\"qt\",%d", &id)
		reply := fmt.Sprintf("43%s[%d,\"reply-%d\"]", ackID, id, id)
		for k := 0; k < 2+id%2; k++ {
			sess.Send(false, []byte(reply))
		}
	}
	time.Sleep(3 * time.Second)
	mu.Lock()
	defer mu.Unlock()
	for id, c := range calls {
		e.Check()
		if c > 1 {
			e.Violate("C03/callback-twice", "rawdup", "the server sent the ACK of emission #%d more than once and the callback ran %d times", id, c)
		}
	}
	if len(calls) > 0 {
		e.NonTrivial()
	}
	e.Shape(fmt.Sprintf("rawdup n%d", n))
	e.Sample = map[string]any{"mode": "rawdup", "emissions": n, "callbacks": len(calls)}
}
