package props

import (
	"encoding/json"
	"fmt"
	"sync"
	"time"

	sio "github.com/karagenc/socket.io-go"
	eio "github.com/karagenc/socket.io-go/engine.io"
	eioparser "github.com/karagenc/socket.io-go/engine.io/parser"
	"nhooyr.io/websocket"

	"verif/dst/sim"
	"verif/dst/world"
)

// C02 — per-emitter order is preserved and the frames of a binary packet travel contiguously.
//
// Modes (direction x observation point):
//   wire-c2s     the library's client emits from G goroutines; the peer is a protocol-level endpoint
//                (the repository's Engine.IO server + a hand-written Socket.IO decoder): order on the wire
//   wire-s2c     the library's server emits (socket.Emit and namespace broadcasts) from G goroutines; the
//                peer is the repository's Engine.IO client + the same decoder
//   handler-c2s  sio <-> sio: order at handler entry on the server
//   handler-s2c  sio <-> sio: order at handler entry on the client
// Each on polling, WebSocket, and after a completed upgrade (traffic starts when both ends have switched).

func init() {
	Register(&Property{
		ID: "C02", Title: "Per-emitter order is preserved and binary frames are never interleaved",
		Level: "exploration",
		Modes: []Mode{{Name: "wire-c2s", Weight: 3}, {Name: "wire-s2c", Weight: 3}, {Name: "handler-c2s", Weight: 2}, {Name: "handler-s2c", Weight: 2}},
		Gen:   genC02, Run: runC02,
		QuickRuns: 4000, ThoroughRuns: 320000,
		Rule: "plan = (direction and observation point, settled transport polling | websocket | after a completed upgrade, 1..16 emitting goroutines, burst of 1..12 events each with 0..4 attachments of 0..2000 bytes and optional pauses, direct emits or namespace broadcasts, latency/jitter/chunking, stalls concentrated on the send queue / dispatch code) from VERIF_SEED; " +
			"non-trivial = at least two goroutines emitted at overlapping times and at least one event carried two or more attachments; distinct = distinct history digest among those",
		Assumptions: []string{
			"fault-free: nothing is cut; order and contiguity are demanded of everything that arrived (loss is C01's subject and reported there)",
			"'emits one after another' = the same goroutine, each Emit returned before the next was called",
		},
		Real: commonReal, Stub: commonStub,
	})
}

func genC02(p *sim.Plan, r *sim.Rand, tier string) {
	world.DrawNet(p, r)
	if p.C("lat_us") > 35000 {
		p.Set("lat_us", 35000)
		p.Set("jit_us", 5000)
	}
	p.Set("tr", int64(r.Intn(3)))
	p.Stall = DrawStall(r, 500_000_000, "packet_queue.go", "server_conn.go", "client_socket.go", "client_manager.go", "ordered_runner.go", "poll_queue.go", "engine.io/server_socket.go", "engine.io/client_socket.go", "transport/websocket", "adapter_memory.go")
	g := []int{1, 2, 3, 4, 8, 16}[r.Intn(6)]
	p.Set("goroutines", int64(g))
	for a := 0; a < g; a++ {
		burst := r.Range(1, 12)
		bc := r.Bool(0.3) // namespace broadcast instead of socket.Emit (server side only)
		for k := 0; k < burst; k++ {
			n := r.Weighted([]int{4, 3, 2, 1, 1})
			size := int64(r.Intn(40))
			if r.Bool(0.1) {
				size = int64(r.Range(200, 2000))
			}
			pause := int64(0)
			if r.Bool(0.2) {
				pause = int64(r.LogDur(time.Microsecond, 20*time.Millisecond))
			}
			b := int64(0)
			if bc {
				b = 1
			}
			p.Ops = append(p.Ops, sim.Op{At: 0, Actor: a, Kind: "emit", I: []int64{int64(k), int64(n), size, pause, b}})
		}
	}
	p.Horizon = int64(20 * time.Second)
}

func c02Bin(g, k, i int, size int64) sio.Binary {
	b := make([]byte, size+3)
	b[0], b[1], b[2] = byte(g), byte(k), byte(i)
	for j := 3; j < len(b); j++ {
		b[j] = byte('a' + (g+k+i+j)%26)
	}
	return sio.Binary(b)
}

type c02Seen struct {
	g, k int
	at   int64
}

func runC02(e *sim.Env) {
	p := e.Plan
	w := world.New(e, world.NetConfigFromPlan(p))
	trs := world.Transports(p.C("tr"))
	wantUpgrade := p.C("tr") == 2
	wire := p.Mode == "wire-c2s" || p.Mode == "wire-s2c"
	c2s := p.Mode == "wire-c2s" || p.Mode == "handler-c2s"
	sig := fmt.Sprintf("%s tr=%d", p.Mode, p.C("tr"))
	far := 20 * time.Minute

	var mu sync.Mutex
	var seen []c02Seen // handler entries or decoded wire packets, in order
	record := func(g, k int) {
		mu.Lock()
		seen = append(seen, c02Seen{g, k, e.Now()})
		mu.Unlock()
	}
	checkBins := func(g, k int, bins ...sio.Binary) {
		for i, b := range bins {
			if len(b) < 3 || int(b[0]) != g || int(b[1]) != k || int(b[2]) != i {
				e.Violate("C02/attachment-mismatch", sig, "event g=%d k=%d: attachment %d arrived with the content of another attachment (tag %v)", g, k, i, []byte(b[:minInt(3, len(b))]))
			}
		}
	}
	// handler registration for the receiving sio side
	type onEventer interface {
		OnEvent(eventName string, handler any)
	}
	attach := func(s onEventer) {
		s.OnEvent("e0", func(g, k int) { record(g, k) })
		s.OnEvent("e1", func(g, k int, a sio.Binary) { record(g, k); checkBins(g, k, a) })
		s.OnEvent("e2", func(g, k int, a, b sio.Binary) { record(g, k); checkBins(g, k, a, b) })
		s.OnEvent("e3", func(g, k int, a, b, c sio.Binary) { record(g, k); checkBins(g, k, a, b, c) })
		s.OnEvent("e4", func(g, k int, a, b, c, d sio.Binary) { record(g, k); checkBins(g, k, a, b, c, d) })
	}

	var emit func(n int, bc bool, args ...any) // the emitting side's Emit
	var frames func() []world.ProtoFrame       // wire modes: the frames the observer received, in order
	upgraded := func() bool { return true }
	eioCfg := &eio.ServerConfig{PingInterval: 25 * time.Second, PingTimeout: far, UpgradeTimeout: far,
		WebSocketAcceptOptions: &websocket.AcceptOptions{CompressionMode: websocket.CompressionDisabled}}

	switch {
	case wire && c2s:
		ps := w.StartProtoServer(eioCfg)
		ps.NoAck = true
		up := false
		cli := w.NewSioClient(0, "/", world.ClientOpts{Transports: trs, UpgradeTimeout: far, NoReconnection: true, UpgradeDone: func(string) { mu.Lock(); up = true; mu.Unlock() }}, nil)
		cli.Socket.Connect()
		if !world.WaitUntil(20*time.Second, func() bool { return cli.Socket.Connected() }) {
			e.Violate("C02/connect-failed", "setup", "no connection")
			return
		}
		upgraded = func() bool {
			mu.Lock()
			defer mu.Unlock()
			sides := ps.ES.Sides()
			return up && len(sides) == 1 && sides[0].Socket.TransportName() == "websocket"
		}
		emit = func(n int, bc bool, args ...any) { cli.Socket.Emit(fmt.Sprintf("e%d", n), args...) }
		frames = ps.Snapshot
	case wire && !c2s:
		reg := w.NewSrvReg()
		srv := w.StartServer(world.ServerOpts{PingInterval: 25 * time.Second, PingTimeout: far, UpgradeTimeout: far, Configure: func(s *sio.Server) { reg.Watch(s.Of("/")) }})
		up := false
		side, err := w.DialEIO(0, world.ClientOpts{Transports: trs, UpgradeTimeout: far, UpgradeDone: func(string) { mu.Lock(); up = true; mu.Unlock() }})
		if err != nil {
			e.Violate("C02/connect-failed", "setup", "%v", err)
			return
		}
		pk, _ := eioparser.NewPacket(eioparser.PacketTypeMessage, false, []byte("0"))
		side.Socket.Send(pk)
		if !world.WaitUntil(20*time.Second, func() bool { return len(reg.All()) == 1 }) {
			e.Violate("C02/connect-failed", "setup", "the server never admitted the protocol-level client")
			return
		}
		ss := reg.All()[0].Socket
		upgraded = func() bool {
			mu.Lock()
			defer mu.Unlock()
			return up
		}
		emit = func(n int, bc bool, args ...any) {
			if bc {
				srv.Of("/").Emit(fmt.Sprintf("e%d", n), args...)
			} else {
				ss.Emit(fmt.Sprintf("e%d", n), args...)
			}
		}
		frames = func() []world.ProtoFrame {
			pkts, _, _, _, _ := side.Snapshot()
			var out []world.ProtoFrame
			for i, r := range pkts {
				out = append(out, world.ProtoFrame{Seq: i + 1, At: r.At, Binary: r.Binary, Data: r.Data})
			}
			return out
		}
	default:
		reg := w.NewSrvReg()
		if c2s {
			reg.OnNew = func(s *world.SrvSock) { attach(s.Socket) }
		}
		srv := w.StartServer(world.ServerOpts{PingInterval: 25 * time.Second, PingTimeout: far, UpgradeTimeout: far, Configure: func(s *sio.Server) { reg.Watch(s.Of("/")) }})
		up := false
		cli := w.NewSioClient(0, "/", world.ClientOpts{Transports: trs, UpgradeTimeout: far, NoReconnection: true, UpgradeDone: func(string) { mu.Lock(); up = true; mu.Unlock() }}, nil)
		if !c2s {
			attach(cli.Socket)
		}
		cli.Socket.Connect()
		if !world.WaitUntil(20*time.Second, func() bool { return cli.Socket.Connected() && len(reg.All()) == 1 }) {
			e.Violate("C02/connect-failed", "setup", "no connection")
			return
		}
		ss := reg.All()[0].Socket
		upgraded = func() bool {
			mu.Lock()
			defer mu.Unlock()
			return up
		}
		emit = func(n int, bc bool, args ...any) {
			switch {
			case c2s:
				cli.Socket.Emit(fmt.Sprintf("e%d", n), args...)
			case bc:
				srv.Of("/").Emit(fmt.Sprintf("e%d", n), args...)
			default:
				ss.Emit(fmt.Sprintf("e%d", n), args...)
			}
		}
	}
	if wantUpgrade {
		if !world.WaitUntil(30*time.Second, upgraded) {
			e.Violate("C02/upgrade-incomplete", "setup", "the upgrade did not complete within 30 s on a fault-free network")
			return
		}
		time.Sleep(time.Duration(4*p.C("lat_us"))*time.Microsecond + 5*time.Millisecond)
	}
	time.Sleep(10 * time.Millisecond)

	// ---- the emitters
	G := int(p.C("goroutines"))
	type span struct{ from, to int64 }
	spans := make([]span, G)
	multi := false
	for g := 0; g < G; g++ {
		g := g
		e.Go(func() {
			spans[g].from = e.Now()
			for _, op := range p.Ops {
				if op.Actor != g {
					continue
				}
				k, n, size, pause, bc := int(op.Int(0)), int(op.Int(1)), op.Int(2), op.Int(3), op.Int(4) == 1
				args := []any{g, k}
				for i := 0; i < n; i++ {
					args = append(args, c02Bin(g, k, i, size))
				}
				if n >= 2 {
					multi = true
				}
				iid, _ := e.Invoke(g, fmt.Sprintf("emit g=%d k=%d att=%d", g, k, n))
				emit(n, bc, args...)
				e.Return(g, iid, "emit")
				if pause > 0 {
					time.Sleep(time.Duration(pause))
				}
			}
			spans[g].to = e.Now()
		})
	}
	time.Sleep(time.Duration(p.Horizon))
	e.StopStalls()
	if pend := e.Pending(); len(pend) > 0 {
		e.Violate("C02/emit-blocked", sig, "Emit calls did not return: %v", pend)
	}

	// ---- oracle
	if wire {
		fr := frames()
		expect := 0        // attachments still expected for the current binary packet
		var cg, ck, ci int // whose attachments
		for _, f := range fr {
			if f.Binary {
				e.Check()
				if expect == 0 {
					e.Violate("C02/interleaved-frames", sig, "frame %d is a binary attachment although no binary packet is open", f.Seq)
					continue
				}
				if len(f.Data) < 3 || int(f.Data[0]) != cg || int(f.Data[1]) != ck || int(f.Data[2]) != ci {
					e.Violate("C02/interleaved-frames", sig, "frame %d: expected attachment %d of event g=%d k=%d, got the attachment tagged %v", f.Seq, ci, cg, ck, f.Data[:minInt(3, len(f.Data))])
				}
				ci++
				expect--
				continue
			}
			typ, att, _, _, payload, ok := world.ParseSIOHeader(f.Data)
			if !ok || (typ != 2 && typ != 5) {
				continue // CONNECT and the like
			}
			e.Check()
			if expect > 0 {
				e.Violate("C02/interleaved-frames", sig, "frame %d (%.30q) arrived while %d attachment(s) of event g=%d k=%d were still due", f.Seq, f.Data, expect, cg, ck)
				expect = 0
			}
			var arr []json.RawMessage
			if json.Unmarshal(payload, &arr) != nil || len(arr) < 3 {
				e.Violate("C02/garbled", sig, "frame %d does not decode: %.40q", f.Seq, f.Data)
				continue
			}
			var g, k int
			json.Unmarshal(arr[1], &g)
			json.Unmarshal(arr[2], &k)
			record(g, k)
			if typ == 5 {
				expect, cg, ck, ci = att, g, k, 0
			}
		}
	}
	mu.Lock()
	got := append([]c02Seen(nil), seen...)
	mu.Unlock()
	last := map[int]int{}
	for g := 0; g < G; g++ {
		last[g] = -1
	}
	cls := "C02/handler-order"
	if wire {
		cls = "C02/wire-order"
	}
	bad := map[int]bool{}
	for _, s := range got {
		e.Check()
		if s.k <= last[s.g] && !bad[s.g] {
			bad[s.g] = true
			e.Violate(cls, sig, "goroutine %d emitted its events in the order 0,1,2,...; event k=%d was observed after k=%d", s.g, s.k, last[s.g])
		}
		if s.k > last[s.g] {
			last[s.g] = s.k
		}
	}
	overlap := false
	for a := 0; a < G; a++ {
		for b := a + 1; b < G; b++ {
			if spans[a].from <= spans[b].to && spans[b].from <= spans[a].to {
				overlap = true
			}
		}
	}
	if overlap && multi && len(got) > 0 {
		e.NonTrivial()
	}
	e.Shape(fmt.Sprintf("%s G%d", sig, G))
	e.Sample = map[string]any{"mode": p.Mode, "transport": trs, "upgraded_first": wantUpgrade, "goroutines": G, "events_emitted": len(p.Ops), "events_observed": len(got)}
}
