// Package props holds, per property, the plan generator, the world it runs in
// and the oracle.
package props

import (
	"sort"

	"verif/dst/sim"
)

type Mode struct {
	Name   string
	Weight int
	// Tier restricts a mode to "thorough" when set.
	ThoroughOnly bool
}

// EnumResult reports a pure-input side run (no schedule, clock or fault in it).
// It is kept apart from simulated runs in the evidence.
type EnumResult struct {
	Name       string          `json:"name"`
	Cases      int             `json:"cases"`
	Exhaustive bool            `json:"exhaustive"`
	Note       string          `json:"note,omitempty"`
	Violations []sim.Violation `json:"-"`
	Samples    []string        `json:"samples,omitempty"`
}

type Property struct {
	ID    string
	Title string
	Level string // exploration | fault_enumeration
	Modes []Mode
	// Gen fills a fresh plan (Prop, Mode, Seed set) from its planning stream.
	Gen func(p *sim.Plan, r *sim.Rand, tier string)
	// Run executes the plan inside the bubble.
	Run func(e *sim.Env)
	// Enum runs the input-enumeration side checks (optional).
	Enum func(tier string, seed uint64) []EnumResult
	// Fixed, when set, returns deterministic enumerated plans (fault enumeration
	// sweeps) that are run in addition to the seeded ones.
	Fixed func(tier string, seed uint64) []*sim.Plan

	QuickRuns    int
	ThoroughRuns int
	Rule         string
	Assumptions  []string
	Real         []string
	Stub         []string
	// MultiP marks properties whose worker may also run unpinned (race build).
	Race bool
}

var All = map[string]*Property{}

func Register(p *Property) { All[p.ID] = p }

func IDs() []string {
	var ids []string
	for id := range All {
		ids = append(ids, id)
	}
	sort.Strings(ids)
	return ids
}

// PlanFor builds plan number idx of a check run: a pure function of (property, tier, seed, idx).
func PlanFor(pr *Property, tier string, vseed uint64, idx int) *sim.Plan {
	// choose the mode from a stream that depends only on (prop, vseed, idx)
	mr := sim.NewRand(vseed).Fork(pr.ID).Fork("mode").ForkN(uint64(idx))
	var names []string
	var w []int
	for _, m := range pr.Modes {
		if m.ThoroughOnly && tier != "thorough" {
			continue
		}
		names = append(names, m.Name)
		w = append(w, m.Weight)
	}
	mode := names[mr.Weighted(w)]
	p := sim.NewPlan(pr.ID, mode, vseed, idx)
	pr.Gen(p, p.Rand(), tier)
	p.SortOps()
	return p
}

// DrawStall picks the yield-stall parameters of a run, swarm style.
func DrawStall(r *sim.Rand, budgetNs int64, focus ...string) sim.StallCfg {
	rates := []int{0, 2000, 20000, 200000}
	maxes := []int64{1, 1000, 1000000, 50000000}
	pcts := []int{100, 100, 50, 25}
	sc := sim.StallCfg{
		Seed:     r.U64(),
		RatePPM:  rates[r.Weighted([]int{1, 3, 4, 3})],
		MaxNs:    maxes[r.Intn(len(maxes))],
		SitePct:  pcts[r.Intn(len(pcts))],
		BudgetNs: budgetNs,
	}
	if len(focus) > 0 && r.Bool(0.6) {
		sc.Focus = focus
		sc.SitePct = 100
		if sc.RatePPM > 0 && r.Bool(0.5) {
			sc.RatePPM = 300000
		}
	}
	return sc
}

var commonReal = []string{
	"all of github.com/karagenc/socket.io-go built from /repo's working tree (tags sio_deadlock,verif)",
	"net/http server and client", "nhooyr.io/websocket", "encoding/json",
}

var commonStub = []string{
	"TCP: simnet in-memory listener/dialer/conn (latency, chunking, faults)",
	"time: testing/synctest fake clock (go1.26.8)",
	"Mutex/RWMutex/Once: lockshim (channel-based, yield hook) substituted for go-deadlock under the repo's sio_deadlock tag",
	"runtime RNG (select order, map iteration, math/rand): seeded by a 4-file runtime overlay; crypto/rand.Reader seeded",
	"not run: WebTransport/QUIC sessions, alternative JSON serializers, print debugger",
}
