package props

import (
	"bytes"
	"fmt"
	"net/http/httptest"
	"sort"
	"strconv"
	"strings"
	"time"

	"github.com/anishathalye/porcupine"
	eioparser "github.com/karagenc/socket.io-go/engine.io/parser"
	"github.com/karagenc/socket.io-go/engine.io/transport"
	"github.com/karagenc/socket.io-go/engine.io/transport/polling"

	sio "github.com/karagenc/socket.io-go"

	"verif/dst/sim"
)

// C19 — queued packets are sent without waiting for unrelated traffic.
//
// Modes:
//   pollq  real polling.ServerTransport through Send / ServeHTTP (recorder):
//          consumers are poll requests, producers call Send.
//   pktq   real packetQueue (verif export) drained by pollAndSend into a
//          recording socket; close / reset racing.
//   stack  full stack, polling only (registered from world.go once the network exists).

func init() {
	Register(&Property{
		ID: "C19", Title: "Queued packets are sent without waiting for unrelated traffic (no lost wake-up)",
		Level: "exploration",
		Modes: []Mode{{Name: "pollq", Weight: 5}, {Name: "pktq", Weight: 4}},
		Gen:   genC19, Run: runC19,
		QuickRuns: 12000, ThoroughRuns: 600000,
		Rule: "plan = (mode, poll time-out, consumer/producer scripts with fake timestamps, stall seed/rate/focus) drawn from VERIF_SEED; " +
			"non-trivial = at least one packet was added while a consumer was between its emptiness check and its wait, or while it was parked (probe counters); " +
			"distinct = distinct digest of the fired (site,hit,ns) stall decisions together with the time-free handoff shape",
		Assumptions: []string{
			"delays other than injected stalls take zero fake time (synctest), so hand-off latency above the overlapping stalls is a wait on a wake-up",
			"interleavings are chosen at lock boundaries (pre-Lock, post-Unlock) and by timer alignment on one P",
		},
		Real: []string{"engine.io/transport/polling.ServerTransport + pollQueue", "sio packetQueue (poll/add/get/close/reset/waitForDrain/pollAndSend)", "full sio stack over polling in mode stack"},
		Stub: commonStub,
	})
}

func genC19(p *sim.Plan, r *sim.Rand, tier string) {
	switch p.Mode {
	case "pollq":
		genC19PollQ(p, r)
	case "pktq":
		genC19PktQ(p, r)
	}
}

func runC19(e *sim.Env) {
	switch e.Plan.Mode {
	case "pollq":
		runC19PollQ(e)
	case "pktq":
		runC19PktQ(e)
	}
}

// ---------------------------------------------------------------------------
// pollq

func genC19PollQ(p *sim.Plan, r *sim.Rand) {
	timeouts := []int64{40, 300, 2000, 30000}
	p.Set("poll_timeout_ms", timeouts[r.Weighted([]int{2, 2, 3, 3})])
	consumers := 1
	if r.Bool(0.25) {
		consumers = 2
	}
	producers := r.Range(1, 3)
	p.Set("consumers", int64(consumers))
	p.Set("producers", int64(producers))
	p.Stall = DrawStall(r, 2_000_000_000, "poll_queue.go")

	// Time base: a run covers ~ a few dozen polls.
	span := int64(r.LogDur(2*time.Millisecond, 3*time.Second))
	npolls := r.Range(3, 30)
	id := int64(0)
	for c := 0; c < consumers; c++ {
		t := r.I64n(span / 8)
		for k := 0; k < npolls; k++ {
			p.Ops = append(p.Ops, sim.Op{At: t, Actor: c, Kind: "poll"})
			// polls are sequential per consumer: At is "not before"
			switch r.Intn(3) {
			case 0: // back to back
			case 1:
				t += r.I64n(span/int64(npolls) + 1)
			default:
				t += int64(r.LogDur(1, time.Duration(span/4+1)))
			}
		}
	}
	for pr := 0; pr < producers; pr++ {
		n := r.Range(1, 12)
		t := r.I64n(span / 4)
		for k := 0; k < n; k++ {
			burst := 1
			if r.Bool(0.2) {
				burst = r.Range(2, 4)
			}
			ids := make([]int64, burst)
			for b := range ids {
				id++
				ids[b] = id
			}
			p.Ops = append(p.Ops, sim.Op{At: t, Actor: 10 + pr, Kind: "send", I: ids})
			t += int64(r.LogDur(1, time.Duration(span/2+1)))
		}
	}
	// every poll may run into its time-out; fake time is free
	last := int64(0)
	for _, op := range p.Ops {
		last = max64(last, op.At)
	}
	p.Horizon = last + span + p.Stall.BudgetNs + p.C("poll_timeout_ms")*1_000_000*int64(npolls+2)
}

type c19Poll struct {
	start, end int64
	ids        []int64
}

func parsePollBody(b []byte) (ids []int64, types []byte, err error) {
	if len(b) == 0 {
		return nil, nil, nil
	}
	for _, part := range bytes.Split(b, []byte{0x1e}) {
		if len(part) == 0 {
			return nil, nil, fmt.Errorf("empty packet in payload %q", b)
		}
		types = append(types, part[0])
		if part[0] == '4' {
			n, e := strconv.ParseInt(string(part[1:]), 10, 64)
			if e != nil {
				return nil, nil, fmt.Errorf("bad message %q", part)
			}
			ids = append(ids, n)
		}
	}
	return
}

func runC19PollQ(e *sim.Env) {
	p := e.Plan
	pollTimeout := time.Duration(p.C("poll_timeout_ms")) * time.Millisecond
	cb := transport.NewCallbacks()
	tr := polling.NewServerTransport(cb, 0, pollTimeout)

	type add struct{ inv, ret int64 }
	adds := map[int64]*add{}
	var polls []*c19Poll
	byActor := map[int][]sim.Op{}
	for _, op := range p.Ops {
		byActor[op.Actor] = append(byActor[op.Actor], op)
	}
	actors := make([]int, 0, len(byActor))
	for a := range byActor {
		actors = append(actors, a)
	}
	sort.Ints(actors)

	doPoll := func(actor int) *c19Poll {
		rec := httptest.NewRecorder()
		req := httptest.NewRequest("GET", "/engine.io/?EIO=4&transport=polling&sid=x", nil)
		pl := &c19Poll{start: e.Now()}
		id, _ := e.Invoke(actor, "poll")
		tr.ServeHTTP(rec, req)
		pl.end = e.Now()
		ids, _, err := parsePollBody(rec.Body.Bytes())
		if err != nil {
			e.Violate("C19/bad-poll-body", "pollq", "%v", err)
		}
		if cl := rec.Header().Get("Content-Length"); cl != strconv.Itoa(rec.Body.Len()) {
			e.Violate("C19/content-length", "pollq", "Content-Length %s, body %d bytes", cl, rec.Body.Len())
		}
		pl.ids = ids
		e.Return(actor, id, fmt.Sprintf("poll -> %v", ids))
		polls = append(polls, pl)
		return pl
	}

	for _, a := range actors {
		ops := byActor[a]
		a := a
		e.Go(func() {
			for _, op := range ops {
				e.SleepUntil(op.At)
				switch op.Kind {
				case "poll":
					doPoll(a)
				case "send":
					pk := make([]*eioparser.Packet, len(op.I))
					for i, id := range op.I {
						pk[i], _ = eioparser.NewPacket(eioparser.PacketTypeMessage, false, []byte(strconv.FormatInt(id, 10)))
						adds[id] = &add{inv: e.Now()}
					}
					iid, _ := e.Invoke(a, fmt.Sprintf("send %v", op.I))
					tr.Send(pk...)
					now := e.Now()
					for _, id := range op.I {
						adds[id].ret = now
					}
					e.Return(a, iid, "send")
				}
			}
		})
	}

	time.Sleep(time.Duration(p.Horizon))
	if pend := e.Pending(); len(pend) > 0 {
		e.Violate("C19/never-returned", "pollq", "operations still pending at horizon: %v", pend)
		return
	}
	// Final poll: whatever is still queued must come out at once.
	e.StopStalls()
	fin := doPoll(99)
	if len(adds) > 0 && fin.end-fin.start > 0 && len(fin.ids) > 0 {
		e.Violate("C19/final-poll-waited", "pollq", "final poll with %d queued packets took %dns", len(fin.ids), fin.end-fin.start)
	}

	// ---- oracle
	deliveredAt := map[int64]int64{}
	for _, pl := range polls {
		for _, id := range pl.ids {
			if _, dup := deliveredAt[id]; dup {
				e.Violate("C19/duplicate", "pollq", "packet %d returned by two polls", id)
			}
			if _, known := adds[id]; !known {
				e.Violate("C19/phantom", "pollq", "packet %d returned but never sent", id)
			}
			deliveredAt[id] = pl.end
		}
	}
	ids := make([]int64, 0, len(adds))
	for id := range adds {
		ids = append(ids, id)
	}
	sort.Slice(ids, func(i, j int) bool { return ids[i] < ids[j] })
	inWindow := 0
	for _, id := range ids {
		a := adds[id]
		e.Check()
		d, ok := deliveredAt[id]
		if !ok {
			e.Violate("C19/lost", "pollq", "packet %d (sent t=%d) never returned by any poll, final poll included", id, a.ret)
			continue
		}
		// D = earliest instant at which some poll could have taken it.
		D := int64(-1)
		for _, pl := range polls {
			// A poll that ended after the hand-over only counts as "could have taken it" if,
			// discounting every stall in between, it would still have been undecided then:
			// a poll that already took its packets and is merely stalled on its way out is not a taker.
			undecided := pl.end-e.StallsOverlapping(a.ret, pl.end) > a.ret
			if undecided || contains(pl.ids, id) {
				t := max64(a.ret, pl.start)
				if D < 0 || t < D {
					D = t
				}
			}
		}
		if D < 0 {
			D = d
		}
		for _, pl := range polls {
			if pl.start < a.inv && pl.end > a.ret {
				inWindow++
				break
			}
		}
		slack := e.StallsOverlapping(min64(a.inv, D), d)
		if d > D+slack {
			e.Violate("C19/lost-wakeup", "pollq",
				"packet %d handed over at t=%d; a poll was pending/arrived at t=%d; returned only at t=%d (waited %v beyond %v of overlapping stalls; poll time-out %v)",
				id, a.ret, D, d, time.Duration(d-D-slack), time.Duration(slack), pollTimeout)
		}
	}
	// empty polls
	for _, pl := range polls {
		if len(pl.ids) != 0 {
			continue
		}
		e.Check()
		slack := e.StallsOverlapping(pl.start, pl.end)
		for _, id := range ids {
			a := adds[id]
			d, delivered := deliveredAt[id]
			// added strictly before the poll's decision instant, still queued when it answered empty
			// (with two polls in progress the packet may already be in the hands of the other one, which
			// took it and is stalled on its way out: the poll that delivered it must not have been in
			// progress while this one was)
			taker := false
			if delivered {
				for _, q := range polls {
					if contains(q.ids, id) && q.start < pl.end {
						taker = true
					}
				}
			}
			if a.ret >= 0 && a.ret < pl.end-slack && (!delivered || d > pl.end) && !taker {
				e.Violate("C19/empty-while-queued", "pollq",
					"poll [%d,%d] answered empty although packet %d was queued since t=%d (delivered t=%d)", pl.start, pl.end, id, a.ret, d)
			}
		}
	}
	if inWindow > 0 {
		e.NonTrivial()
		e.Probe("add-while-poll-pending")
	}
	var shape []string
	for _, pl := range polls {
		shape = append(shape, fmt.Sprint(len(pl.ids)))
	}
	e.Shape(strings.Join(shape, ","))
	e.Sample = map[string]any{"mode": "pollq", "polls": len(polls), "packets": len(adds), "poll_timeout": pollTimeout.String(), "adds_while_pending": inWindow}
}

func contains(xs []int64, x int64) bool {
	for _, v := range xs {
		if v == x {
			return true
		}
	}
	return false
}
func max64(a, b int64) int64 {
	if a > b {
		return a
	}
	return b
}
func min64(a, b int64) int64 {
	if a < b {
		return a
	}
	return b
}

// ---------------------------------------------------------------------------
// pktq

func genC19PktQ(p *sim.Plan, r *sim.Rand) {
	producers := r.Range(1, 3)
	p.Set("producers", int64(producers))
	p.Stall = DrawStall(r, 2_000_000_000, "packet_queue.go")
	span := int64(r.LogDur(1*time.Millisecond, 2*time.Second))
	id := int64(0)
	for pr := 0; pr < producers; pr++ {
		n := r.Range(1, 15)
		t := r.I64n(span/4 + 1)
		for k := 0; k < n; k++ {
			burst := 1
			if r.Bool(0.3) {
				burst = r.Range(2, 5)
			}
			ids := make([]int64, burst)
			for b := range ids {
				id++
				ids[b] = id
			}
			p.Ops = append(p.Ops, sim.Op{At: t, Actor: 10 + pr, Kind: "add", I: ids})
			if r.Bool(0.5) {
				t += int64(r.LogDur(1, time.Duration(span/3+1)))
			}
		}
	}
	// slow socket: Send takes this long (fake) for some sends
	p.Set("send_ns", []int64{0, 0, 1000, 5_000_000}[r.Intn(4)])
	switch r.Intn(4) {
	case 0: // close race: the library's own closing sequence (waitForDrain, then close)
		p.Ops = append(p.Ops, sim.Op{At: r.I64n(span + 1), Actor: 20, Kind: "drain_close"})
	case 1:
		p.Ops = append(p.Ops, sim.Op{At: r.I64n(span + 1), Actor: 20, Kind: "reset"})
	}
	p.Horizon = span*2 + 200_000_000
}

type recSocket struct {
	e      *sim.Env
	sendNs int64
	sent   []int64
	sentAt map[int64]int64
	dup    []int64
	calls  [][]int64
}

func (s *recSocket) ID() string                  { return "rec" }
func (s *recSocket) PingInterval() time.Duration { return 25 * time.Second }
func (s *recSocket) PingTimeout() time.Duration  { return 20 * time.Second }
func (s *recSocket) TransportName() string       { return "rec" }
func (s *recSocket) Close()                      {}
func (s *recSocket) Send(packets ...*eioparser.Packet) {
	now := s.e.Now()
	var call []int64
	for _, p := range packets {
		id, _ := strconv.ParseInt(string(p.Data), 10, 64)
		if _, d := s.sentAt[id]; d {
			s.dup = append(s.dup, id)
		}
		s.sentAt[id] = now
		s.sent = append(s.sent, id)
		call = append(call, id)
	}
	s.calls = append(s.calls, call)
	s.e.Log(1, "sock.send", "%v", call)
	if s.sendNs > 0 {
		time.Sleep(time.Duration(s.sendNs))
	}
}

type pqOp struct {
	kind     string // add | send
	ids      []int64
	call, rt int
	client   int
}

func runC19PktQ(e *sim.Env) {
	p := e.Plan
	q := sio.VerifNewPacketQueue()
	sock := &recSocket{e: e, sendNs: p.C("send_ns"), sentAt: map[int64]int64{}}
	exited := int64(-1)
	e.Go(func() {
		q.PollAndSend(sock)
		exited = e.Now()
		e.Log(1, "drainer", "exit")
	})

	type add struct{ inv, ret int64 }
	adds := map[int64]*add{}
	var hist []pqOp
	var closeInv, closeRet, resetAt int64 = -1, -1, -1
	drainTimedOut := false
	byActor := map[int][]sim.Op{}
	for _, op := range p.Ops {
		byActor[op.Actor] = append(byActor[op.Actor], op)
	}
	actors := make([]int, 0, len(byActor))
	for a := range byActor {
		actors = append(actors, a)
	}
	sort.Ints(actors)
	for _, a := range actors {
		ops := byActor[a]
		a := a
		e.Go(func() {
			for _, op := range ops {
				e.SleepUntil(op.At)
				switch op.Kind {
				case "add":
					pk := make([]*eioparser.Packet, len(op.I))
					for i, id := range op.I {
						pk[i], _ = eioparser.NewPacket(eioparser.PacketTypeMessage, false, []byte(strconv.FormatInt(id, 10)))
						adds[id] = &add{inv: e.Now(), ret: -1}
					}
					iid, cs := e.Invoke(a, fmt.Sprintf("add %v", op.I))
					q.Add(pk...)
					now := e.Now()
					for _, id := range op.I {
						adds[id].ret = now
					}
					rs := e.Return(a, iid, "add")
					hist = append(hist, pqOp{kind: "add", ids: op.I, call: cs, rt: rs, client: a})
				case "drain_close":
					closeInv = e.Now()
					iid, _ := e.Invoke(a, "waitForDrain+close")
					drainTimedOut = q.WaitForDrain(2 * time.Minute)
					q.Close()
					closeRet = e.Now()
					e.Return(a, iid, fmt.Sprintf("closed timedout=%v", drainTimedOut))
				case "reset":
					iid, _ := e.Invoke(a, "reset")
					q.Reset()
					resetAt = e.Now()
					e.Return(a, iid, "reset")
				}
			}
		})
	}

	time.Sleep(time.Duration(p.Horizon))
	e.StopStalls()
	settle := 3 * time.Minute
	if closeInv < 0 {
		settle = 100 * time.Millisecond
	}
	time.Sleep(settle)

	// ---- oracle
	if len(sock.dup) > 0 {
		e.Violate("C19/duplicate", "pktq", "packets handed to the socket twice: %v", sock.dup)
	}
	ids := make([]int64, 0, len(adds))
	for id := range adds {
		ids = append(ids, id)
	}
	sort.Slice(ids, func(i, j int) bool { return ids[i] < ids[j] })
	parked := 0
	for _, id := range ids {
		a := adds[id]
		e.Check()
		if a.ret < 0 {
			e.Violate("C19/never-returned", "pktq", "add of %d never returned", id)
			continue
		}
		d, ok := sock.sentAt[id]
		// A packet still queued when the closing sequence starts may be discarded by it: the
		// statement is about prompt transmission on a live connection, not about delivery
		// across close (first version of this oracle demanded the latter: false alarm, corrected).
		// A packet that had time to be sent before the closing sequence began must have been.
		toClose := e.StallsOverlapping(a.inv, max64(closeInv, a.ret)) + int64(len(sock.calls))*sock.sendNs
		mayDrop := (closeInv >= 0 && closeInv <= a.ret+toClose) || (resetAt >= 0 && a.inv <= resetAt) ||
			(closeInv >= 0 && drainTimedOut)
		if !ok {
			if !mayDrop {
				e.Violate("C19/lost", "pktq", "packet %d added at t=%d never handed to the socket (close at %d, reset at %d)", id, a.ret, closeInv, resetAt)
			}
			continue
		}
		// The drainer can be busy inside a slow Send; that time is not a lost wake-up.
		busy := int64(len(sock.calls)) * sock.sendNs
		slack := e.StallsOverlapping(a.inv, d) + busy
		if d > a.ret+slack {
			e.Violate("C19/lost-wakeup", "pktq", "packet %d added at t=%d reached the socket only at t=%d (%v beyond %v of stalls and send time)",
				id, a.ret, d, time.Duration(d-a.ret-slack), time.Duration(slack))
		}
		if d > a.ret {
			parked++
		}
	}
	// per-producer FIFO
	pos := map[int64]int{}
	for i, id := range sock.sent {
		pos[id] = i
	}
	for _, a := range actors {
		last := -1
		var lastID int64
		for _, op := range byActor[a] {
			if op.Kind != "add" {
				continue
			}
			for _, id := range op.I {
				if ps, ok := pos[id]; ok {
					e.Check()
					if ps < last {
						e.Violate("C19/reorder", "pktq", "producer %d: packet %d sent before earlier packet %d", a, id, lastID)
					}
					last, lastID = ps, id
				}
			}
		}
	}
	// frames of one add stay contiguous (C02's wire half relies on it; cheap to assert here)
	for _, a := range actors {
		for _, op := range byActor[a] {
			if op.Kind != "add" || len(op.I) < 2 {
				continue
			}
			first, ok := pos[op.I[0]]
			if !ok {
				continue
			}
			for k, id := range op.I {
				if ps, ok := pos[id]; ok && ps != first+k {
					e.Violate("C19/interleaved", "pktq", "frames %v of one add were not contiguous in the send order %v", op.I, sock.sent)
					break
				}
			}
		}
	}
	if closeInv >= 0 {
		e.Check()
		if closeRet < 0 {
			e.Violate("C19/close-hang", "pktq", "waitForDrain+close invoked at t=%d never returned", closeInv)
		} else if exited < 0 {
			e.Violate("C19/drainer-leak", "pktq", "pollAndSend still running %v after close returned", settle)
		}
		e.Probe("close-race")
	}
	if resetAt >= 0 {
		e.Probe("reset-race")
	}
	if parked > 0 {
		e.NonTrivial()
	}

	// linearizability of add / drain against a FIFO that is emptied by each drain
	if len(hist) > 0 && len(hist) <= 40 && closeInv < 0 && resetAt < 0 {
		var ops []porcupine.Operation
		for _, h := range hist {
			ops = append(ops, porcupine.Operation{ClientId: h.client - 9, Input: pqOp{kind: "add", ids: h.ids}, Call: int64(h.call), Output: nil, Return: int64(h.rt)})
		}
		evs := e.Events()
		for i, ev := range evs {
			if ev.Kind == "sock.send" {
				var got []int64
				for _, f := range strings.Fields(strings.Trim(ev.Msg, "[]")) {
					n, _ := strconv.ParseInt(f, 10, 64)
					got = append(got, n)
				}
				// the take happened somewhere before the send was observed; bound it by the previous send
				call := 0
				for j := i - 1; j >= 0; j-- {
					if evs[j].Kind == "sock.send" {
						call = evs[j].Seq
						break
					}
				}
				ops = append(ops, porcupine.Operation{ClientId: 0, Input: pqOp{kind: "take"}, Call: int64(call), Output: got, Return: int64(ev.Seq)})
			}
		}
		res := porcupine.CheckOperationsTimeout(fifoDrainModel, ops, 10*time.Second)
		switch res {
		case porcupine.Illegal:
			e.Violate("C19/not-linearizable", "pktq", "add/take history is not linearizable w.r.t. a FIFO emptied by each take: %v", sock.calls)
		case porcupine.Unknown:
			e.Inconclusive()
		default:
			e.Probe("porcupine-ok")
		}
	}
	var shape []string
	for _, c := range sock.calls {
		shape = append(shape, fmt.Sprint(len(c)))
	}
	e.Shape(strings.Join(shape, ","))
	e.Sample = map[string]any{"mode": "pktq", "adds": len(hist), "send_calls": len(sock.calls), "close_race": closeInv >= 0, "reset_race": resetAt >= 0, "parked_handoffs": parked}
}

var fifoDrainModel = porcupine.Model{
	Init: func() interface{} { return "" },
	Step: func(state, input, output interface{}) (bool, interface{}) {
		st := state.(string)
		in := input.(pqOp)
		switch in.kind {
		case "add":
			for _, id := range in.ids {
				st += strconv.FormatInt(id, 10) + ","
			}
			return true, st
		default:
			got := output.([]int64)
			want := ""
			for _, id := range got {
				want += strconv.FormatInt(id, 10) + ","
			}
			// a take removes a non-empty prefix... the implementation takes the whole queue
			if st == want {
				return true, ""
			}
			return false, st
		}
	},
	Equal: func(a, b interface{}) bool { return a.(string) == b.(string) },
}
