package props

import (
	"encoding/base64"
	"fmt"
	"reflect"
	"sort"
	"strconv"
	"strings"

	sio "github.com/karagenc/socket.io-go"

	"verif/dst/sim"
)

// Argument shapes: each shape class knows how to build a fresh argument list
// for an emission (from a seeded stream, with a filler of a requested length)
// and offers the typed handler that receives it. Every emission carries its id
// as first argument so that each delivery is attributable to one emission.

type tInner struct {
	X int     `json:"x"`
	Y string  `json:"y"`
	Z float64 `json:"z"`
}

type tStruct struct {
	A int               `json:"a"`
	B string            `json:"b"`
	C []int             `json:"c"`
	D map[string]string `json:"d"`
	E *tInner           `json:"e"`
	F bool              `json:"f"`
}

type tBinStruct struct {
	Name string     `json:"name"`
	Data sio.Binary `json:"data"`
	N    int        `json:"n"`
}

type tOuterBin struct {
	Label string     `json:"label"`
	In    tBinStruct `json:"in"`
}

// Canon renders a value in a canonical, type-insensitive form: numbers as
// float64, binary as base64, nil and empty containers alike, maps with sorted keys.
func Canon(v any) string {
	var b strings.Builder
	canon(&b, reflect.ValueOf(v))
	return b.String()
}

func canon(b *strings.Builder, v reflect.Value) {
	if !v.IsValid() {
		b.WriteString("null")
		return
	}
	switch v.Kind() {
	case reflect.Interface, reflect.Ptr:
		if v.IsNil() {
			b.WriteString("null")
			return
		}
		canon(b, v.Elem())
	case reflect.Bool:
		b.WriteString(strconv.FormatBool(v.Bool()))
	case reflect.Int, reflect.Int8, reflect.Int16, reflect.Int32, reflect.Int64:
		b.WriteString(strconv.FormatFloat(float64(v.Int()), 'g', -1, 64))
	case reflect.Uint, reflect.Uint8, reflect.Uint16, reflect.Uint32, reflect.Uint64:
		b.WriteString(strconv.FormatFloat(float64(v.Uint()), 'g', -1, 64))
	case reflect.Float32, reflect.Float64:
		b.WriteString(strconv.FormatFloat(v.Float(), 'g', -1, 64))
	case reflect.String:
		b.WriteString(strconv.Quote(v.String()))
	case reflect.Slice, reflect.Array:
		if v.Type().Elem().Kind() == reflect.Uint8 {
			b.WriteString("bin:" + base64.StdEncoding.EncodeToString(v.Bytes()))
			return
		}
		b.WriteString("[")
		for i := 0; i < v.Len(); i++ {
			if i > 0 {
				b.WriteString(",")
			}
			canon(b, v.Index(i))
		}
		b.WriteString("]")
	case reflect.Map:
		keys := v.MapKeys()
		ks := make([]string, len(keys))
		m := map[string]reflect.Value{}
		for i, k := range keys {
			ks[i] = fmt.Sprint(k.Interface())
			m[ks[i]] = v.MapIndex(k)
		}
		sort.Strings(ks)
		b.WriteString("{")
		for i, k := range ks {
			if i > 0 {
				b.WriteString(",")
			}
			b.WriteString(strconv.Quote(k) + ":")
			canon(b, m[k])
		}
		b.WriteString("}")
	case reflect.Struct:
		t := v.Type()
		type kv struct {
			k string
			v reflect.Value
		}
		var fs []kv
		for i := 0; i < t.NumField(); i++ {
			f := t.Field(i)
			if !f.IsExported() {
				continue
			}
			name := f.Name
			if tag := f.Tag.Get("json"); tag != "" {
				name = strings.Split(tag, ",")[0]
			}
			fs = append(fs, kv{name, v.Field(i)})
		}
		sort.Slice(fs, func(i, j int) bool { return fs[i].k < fs[j].k })
		b.WriteString("{")
		for i, f := range fs {
			if i > 0 {
				b.WriteString(",")
			}
			b.WriteString(strconv.Quote(f.k) + ":")
			canon(b, f.v)
		}
		b.WriteString("}")
	default:
		fmt.Fprintf(b, "?%s", v.Kind())
	}
}

func CanonArgs(args []any) string {
	parts := make([]string, len(args))
	for i, a := range args {
		parts[i] = Canon(a)
	}
	return strings.Join(parts, " | ")
}

var uniPool = []string{"", "a", "héllo wörld", "日本語テキスト", "emoji 😀🎉", "quote\"inside", "back\\slash", "tab\there", "new\nline", "nul\x00byte", " sep", "</script>", "{\"_placeholder\":true,\"num\":0}", "trailing\\"}

func uniString(r *sim.Rand, pad int) string {
	s := uniPool[r.Intn(len(uniPool))]
	if pad > 0 {
		// ASCII filler: one byte per character in JSON
		s += strings.Repeat("x", pad)
	}
	return s
}

// Shape describes one argument-shape class.
type Shape struct {
	Name    string
	Bin     int  // number of attachments
	PadBin  bool // filler goes into the first binary (else into a string)
	Build   func(r *sim.Rand, id int64, pad int) []any
	Handler func(rec func(id int64, args []any)) any
}

var Shapes = []Shape{
	{Name: "nums", Build: func(r *sim.Rand, id int64, pad int) []any {
		return []any{int(id), int64(r.U64() >> 12), float64(r.Intn(1000000)) / 64, strings.Repeat("9", pad)}
	}, Handler: func(rec func(int64, []any)) any {
		return func(id int, a int64, f float64, s string) { rec(int64(id), []any{id, a, f, s}) }
	}},
	{Name: "str", Build: func(r *sim.Rand, id int64, pad int) []any {
		return []any{int(id), uniString(r, pad)}
	}, Handler: func(rec func(int64, []any)) any {
		return func(id int, s string) { rec(int64(id), []any{id, s}) }
	}},
	{Name: "struct", Build: func(r *sim.Rand, id int64, pad int) []any {
		v := tStruct{A: r.Intn(1000) - 500, B: uniString(r, pad), C: []int{1, r.Intn(9), 3}, D: map[string]string{"k": uniString(r, 0), "z": "w"}, F: r.Bool(0.5)}
		if r.Bool(0.6) {
			v.E = &tInner{X: r.Intn(100), Y: uniString(r, 0), Z: 1.5}
		}
		if r.Bool(0.3) {
			v.C = nil
		}
		return []any{int(id), v}
	}, Handler: func(rec func(int64, []any)) any {
		return func(id int, v tStruct) { rec(int64(id), []any{id, v}) }
	}},
	{Name: "mapany", Build: func(r *sim.Rand, id int64, pad int) []any {
		m := map[string]any{"n": r.Intn(100), "s": uniString(r, pad), "b": r.Bool(0.5), "nil": nil,
			"list": []any{1, "two", 3.5, map[string]any{"deep": uniString(r, 0)}}, "obj": map[string]any{"x": 1, "y": []any{}}}
		return []any{int(id), m}
	}, Handler: func(rec func(int64, []any)) any {
		return func(id int, m map[string]any) { rec(int64(id), []any{id, m}) }
	}},
	{Name: "slice", Build: func(r *sim.Rand, id int64, pad int) []any {
		n := r.Intn(5)
		xs := make([]string, n)
		for i := range xs {
			xs[i] = uniString(r, 0)
		}
		xs = append(xs, strings.Repeat("y", pad))
		return []any{int(id), xs}
	}, Handler: func(rec func(int64, []any)) any {
		return func(id int, xs []string) { rec(int64(id), []any{id, xs}) }
	}},
	{Name: "bin1", Bin: 1, PadBin: true, Build: func(r *sim.Rand, id int64, pad int) []any {
		return []any{int(id), sio.Binary(r.Bytes(pad))}
	}, Handler: func(rec func(int64, []any)) any {
		return func(id int, b sio.Binary) { rec(int64(id), []any{id, b}) }
	}},
	{Name: "binstruct", Bin: 1, PadBin: true, Build: func(r *sim.Rand, id int64, pad int) []any {
		return []any{int(id), tBinStruct{Name: uniString(r, 0), Data: sio.Binary(r.Bytes(pad)), N: r.Intn(50)}}
	}, Handler: func(rec func(int64, []any)) any {
		return func(id int, v tBinStruct) { rec(int64(id), []any{id, v}) }
	}},
	{Name: "mixed", Bin: 2, PadBin: true, Build: func(r *sim.Rand, id int64, pad int) []any {
		return []any{int(id), uniString(r, 0), sio.Binary(r.Bytes(pad)), r.Intn(1000), sio.Binary(r.Bytes(r.Intn(40)))}
	}, Handler: func(rec func(int64, []any)) any {
		return func(id int, s string, b1 sio.Binary, n int, b2 sio.Binary) { rec(int64(id), []any{id, s, b1, n, b2}) }
	}},
	{Name: "mapbin", Bin: 1, PadBin: true, Build: func(r *sim.Rand, id int64, pad int) []any {
		return []any{int(id), map[string]any{"name": uniString(r, 0), "blob": sio.Binary(r.Bytes(pad))}}
	}, Handler: func(rec func(int64, []any)) any {
		return func(id int, m map[string]any) { rec(int64(id), []any{id, m}) }
	}},
	{Name: "nestedbin", Bin: 1, PadBin: true, Build: func(r *sim.Rand, id int64, pad int) []any {
		return []any{int(id), tOuterBin{Label: uniString(r, 0), In: tBinStruct{Name: "in", Data: sio.Binary(r.Bytes(pad)), N: 7}}}
	}, Handler: func(rec func(int64, []any)) any {
		return func(id int, v tOuterBin) { rec(int64(id), []any{id, v}) }
	}},
	{Name: "bin4", Bin: 4, PadBin: true, Build: func(r *sim.Rand, id int64, pad int) []any {
		return []any{int(id), sio.Binary(r.Bytes(pad)), sio.Binary(r.Bytes(r.Intn(3))), sio.Binary(r.Bytes(r.Intn(300))), sio.Binary(r.Bytes(1))}
	}, Handler: func(rec func(int64, []any)) any {
		return func(id int, a, b, c, d sio.Binary) { rec(int64(id), []any{id, a, b, c, d}) }
	}},
	{Name: "ptrstruct", Build: func(r *sim.Rand, id int64, pad int) []any {
		return []any{int(id), &tInner{X: r.Intn(10), Y: uniString(r, pad), Z: 2.25}}
	}, Handler: func(rec func(int64, []any)) any {
		return func(id int, v *tInner) { rec(int64(id), []any{id, v}) }
	}},
}

// Event-name pool: unicode, quotes, backslashes, names that are prefixes of one another.
var EventNames = []string{"e", "ev", "eve", "event", "chat message", "ünï-cødé", "日本", "with\"quote", "back\\slash\\x", "tail\\", "a,b", "/slashy", "1numeric", "{json}", "[arr]", "sp ace", "\ttab"}
