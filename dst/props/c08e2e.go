package props

import (
	"encoding/base64"
	"encoding/json"
	"fmt"
	"math"
	"sort"
	"strings"
	"sync"
	"time"

	sio "github.com/karagenc/socket.io-go"

	"verif/dst/sim"
	"verif/dst/world"
)

// C08 end to end.
//
// raw:      a raw polling peer does what a client must do - remember pid and the offset of the last
//           event it received, reconnect with them - against the real server with recovery enabled.
// goclient: the library's own client, reconnecting by itself after its connection was cut.

func genC08E2E(p *sim.Plan, r *sim.Rand) {
	world.DrawNet(p, r)
	if p.C("lat_us") > 2000 {
		p.Set("lat_us", 2000)
		p.Set("jit_us", 300)
	}
	p.Stall = DrawStall(r, 200_000_000)
	W := []int64{3, 20}[r.Intn(2)]
	p.Set("window_s", W)
	p.Set("rooms", int64(r.Intn(8)))
	n := r.Range(3, 25)
	span := int64(r.Range(1, 3)) * 1_000_000_000
	disc := 300_000_000 + r.I64n(span)
	var gap int64
	switch r.Intn(5) {
	case 0:
		gap = W*1_000_000_000 + int64(r.Range(2000, 6000))*1_000_000
	case 1:
		gap = int64(r.Range(10, 300)) * 1_000_000
	default:
		gap = r.I64n(W*1_000_000_000*8/10) + 50_000_000
	}
	p.Set("disconnect_at", disc)
	p.Set("reconnect_gap", gap)
	for i := 0; i < n; i++ {
		var at int64
		switch r.Intn(3) {
		case 0:
			at = 100_000_000 + r.I64n(disc) // before the disconnect
		case 1:
			at = disc + r.I64n(gap+1) // while away
		default:
			at = 100_000_000 + r.I64n(disc+gap+500_000_000)
		}
		kind := []string{"nsp", "room", "except", "direct"}[r.Intn(4)]
		p.Ops = append(p.Ops, sim.Op{At: at, Actor: 0, Kind: kind, I: []int64{int64(i + 1), int64(r.Intn(8)), int64(r.Intn(8)), int64(r.Intn(4) / 3)}})
	}
	if p.Mode == "raw" {
		p.SetB("double", r.Bool(0.3))
		// ConnectionStateRecovery.UseMiddlewares: a returning session passes the namespace middlewares
		// (one that takes mw_us) between the scan of the log and its admission
		if r.Bool(0.3) {
			p.SetB("use_mw", true)
			p.Set("mw_us", []int64{0, 100, 5000, 40000}[r.Intn(4)])
		}
		if r.Bool(0.5) {
			// broadcasts aimed at the instant of the return (the CONNECT reaches the server three to five
			// one-way trips after the peer set out), and a restoration that takes its time: a packet is
			// logged between the scan of the log and the admission of the restored socket
			trips := int64(r.Range(3, 5))
			tight := r.Bool(0.5)
			if tight {
				// no latency, a broadcast every few milliseconds across the return
				p.Set("lat_us", 0)
				p.Set("jit_us", 0)
			}
			cnt := r.Range(3, 8)
			if tight {
				cnt = 16
			}
			for k := 0; k < cnt; k++ {
				n++
				at := disc + gap + trips*p.C("lat_us")*1000 - 3_000_000 + r.I64n(40_000_000)
				if tight {
					at = disc + gap - 4_000_000 + int64(k)*4_000_000 + r.I64n(2_000_000)
				}
				kind := []string{"nsp", "except"}[r.Intn(2)]
				if tight {
					kind = "nsp" // addressed to the session whatever its rooms
				}
				p.Ops = append(p.Ops, sim.Op{At: at, Actor: 0, Kind: kind, I: []int64{int64(n), 0, int64(r.Intn(8)), int64(r.Intn(4) / 3)}})
			}
			files := []string{"namespace.go", "server_socket.go", "server_conn.go", "adapter_session_aware.go", "packet_queue.go", "store.go"}
			p.Stall = DrawStall(r, 300_000_000, files...)
			p.Stall.Focus = files
			p.Stall.SitePct = 100
			p.Stall.RatePPM = []int{50000, 200000, 500000}[r.Intn(3)]
			p.Stall.MaxNs = []int64{2_000_000, 20_000_000, 50_000_000}[r.Intn(3)]
			if tight {
				// only the admission itself is slow (namespace.go: Namespace.add / doConnect), the emitter is not
				p.Stall.Focus = []string{"namespace.go"}
				p.Stall.RatePPM = 300_000
				p.Stall.MinNs = 5_000_000
				p.Stall.MaxNs = 40_000_000
			}
		}
	}
	if p.Mode == "goclient" {
		// a handler that takes its time: events received before the cut are still waiting for their
		// turn when the connection goes (plus a cluster of events right before the cut)
		h := []int64{0, 0, 100, 5000, 50000}[r.Intn(5)]
		p.Set("handler_us", h)
		for k := 0; k < r.Range(2, 8); k++ {
			// arrival = emission + latency: aim at the instant of the cut
			at := disc - p.C("lat_us")*1000 - r.I64n(h*1000*4+2_000_000)
			if at < 100_000_000 {
				at = 100_000_000
			}
			n++
			p.Ops = append(p.Ops, sim.Op{At: at, Actor: 0, Kind: "nsp", I: []int64{int64(n), 0, 0, int64(r.Intn(4) / 3)}})
		}
		if r.Bool(0.6) {
			// the dispatch of a received event against the end of its connection
			p.Stall = DrawStall(r, 200_000_000, "client_socket.go", "client_manager.go", "store.go", "ordered_runner.go")
			p.Stall.Focus = []string{"client_socket.go", "client_manager.go", "store.go", "ordered_runner.go"}
			p.Stall.SitePct = 100
			p.Stall.RatePPM = []int{20000, 100000, 300000}[r.Intn(3)]
			p.Stall.MaxNs = []int64{100_000, 2_000_000, 20_000_000}[r.Intn(3)]
		}
	}
	p.Horizon = disc + gap + int64(8*time.Second)
}

type c08Emit struct {
	id     int64
	at     int64 // invoked
	ret    int64 // returned (MaxInt64 while running)
	T, E   []sio.Room
	direct bool
	bin    bool
}

type c08Got struct {
	id     int64
	offset string
	bin    string // base64 of the attachment, "" for text
	at     int64
	phase  int // 0 = first connection, 1 = after reconnect
}

// parseSio splits a polling payload into Socket.IO events as a client would: text packets "4<sio>",
// binary attachments "b<base64>" following a binary header.
func c08ParsePayload(body []byte, pendingHdr *string, pendingAtt *int, out func(kind string, text string, att string)) {
	for _, pk := range world.SplitPayload(body) {
		if pk == "" {
			continue
		}
		switch pk[0] {
		case '4':
			s := pk[1:]
			if *pendingAtt > 0 {
				// text where an attachment was announced
				out("broken", *pendingHdr+" <- got text "+s, "")
				*pendingAtt = 0
			}
			if len(s) > 0 && (s[0] == '5' || s[0] == '6') {
				dash := strings.Index(s, "-")
				n := 0
				fmt.Sscanf(s[1:dash], "%d", &n)
				if n > 0 {
					*pendingHdr, *pendingAtt = s, n
					continue
				}
			}
			out("text", s, "")
		case 'b':
			if *pendingAtt > 0 {
				*pendingAtt--
				if *pendingAtt == 0 {
					out("binary", *pendingHdr, pk[1:])
				}
			} else {
				out("broken", "attachment without header", pk[1:])
			}
		}
	}
}

func runC08Raw(e *sim.Env) {
	p := e.Plan
	W := time.Duration(p.C("window_s")) * time.Second
	w := world.New(e, world.NetConfigFromPlan(p))
	reg := w.NewSrvReg()
	rooms := roomsOfSio(p.C("rooms"))
	var recoveredRooms []string
	recoveredSeen, recoveredAny := false, false
	reg.OnNew = func(s *world.SrvSock) {
		if !s.Socket.Recovered() && len(rooms) > 0 {
			s.Socket.Join(rooms...)
		}
		if s.Socket.Recovered() {
			recoveredAny = true
		}
		if s.Socket.Recovered() && !recoveredSeen {
			var rs []string
			for _, r := range s.Socket.Rooms().ToSlice() {
				rs = append(rs, string(r))
			}
			// (the connection handler can run after the peer has gone again - the second drop of the
			// double mode, 50 ms after the CONNECT reply: a closed socket is in no room)
			if s.Socket.Connected() {
				recoveredSeen = true
				recoveredRooms = rs
				sort.Strings(recoveredRooms)
			}
		}
	}
	srv := w.StartServer(world.ServerOpts{Recovery: true, MaxDisconnect: W, UseMiddlewares: p.B("use_mw"), PingInterval: 25 * time.Second, PingTimeout: 20 * time.Minute,
		Configure: func(s *sio.Server) {
			reg.Watch(s.Of("/"))
			if p.B("use_mw") {
				s.Of("/").Use(func(sio.ServerSocket, *sio.Handshake) any {
					time.Sleep(time.Duration(p.C("mw_us")) * time.Microsecond)
					return nil
				})
			}
		}})
	raw := w.NewRawPeer("c0")

	var mu sync.Mutex
	var got []c08Got
	var broken []string
	var connectErrors []string
	phase := 0
	connects := []map[string]string{}
	session := func(auth string) (sid string, stop func()) {
		hs, resp := raw.Handshake("")
		if hs == nil {
			e.Violate("C08/raw-handshake-failed", "raw", "%v %d", resp.Err, resp.Status)
			return "", func() {}
		}
		if r := raw.Post(hs.SID, []byte("40"+auth), false); r.Status != 200 {
			e.Violate("C08/raw-handshake-failed", "raw", "CONNECT POST: %d %v", r.Status, r.Err)
		}
		done := make(chan struct{})
		stopped := make(chan struct{})
		go func() {
			defer close(stopped)
			hdr, att := "", 0
			for {
				select {
				case <-done:
					return
				default:
				}
				r := raw.Poll(hs.SID)
				if r.Err != nil || r.Status != 200 {
					return
				}
				now := e.Now()
				c08ParsePayload(r.Body, &hdr, &att, func(kind, text, attB64 string) {
					mu.Lock()
					defer mu.Unlock()
					switch {
					case kind == "broken":
						broken = append(broken, text)
					case strings.HasPrefix(text, "4{"):
						connectErrors = append(connectErrors, fmt.Sprintf("phase %d: %s", phase, text))
						e.Log(0, "raw.connect_error", "%s", text)
					case strings.HasPrefix(text, "0{"):
						var m map[string]string
						json.Unmarshal([]byte(text[1:]), &m)
						m["phase"] = fmt.Sprint(phase)
						connects = append(connects, m)
						e.Log(0, "raw.connect", "%v", m)
					case text[0] == '2' || text[0] == '5':
						i := strings.Index(text, "[")
						var arr []any
						if i < 0 || json.Unmarshal([]byte(text[i:]), &arr) != nil || len(arr) < 2 {
							broken = append(broken, "undecodable event "+text)
							return
						}
						g := c08Got{id: -1, at: now, phase: phase, bin: attB64}
						if f, ok := arr[1].(float64); ok {
							g.id = int64(f)
						}
						if s, ok := arr[len(arr)-1].(string); ok && len(arr) >= 3 {
							g.offset = s
						}
						got = append(got, g)
						e.Log(0, "raw.event", "#%d offset=%q bin=%d phase=%d", g.id, g.offset, len(attB64), phase)
					case text[0] == '2' && false:
					}
				})
			}
		}()
		return hs.SID, func() {
			close(done)
			raw.Post(hs.SID, []byte("1"), false) // Engine.IO close: the server sees "transport close"
			<-stopped
		}
	}

	_, stop1 := session("")
	if !world.WaitUntil(10*time.Second, func() bool { mu.Lock(); defer mu.Unlock(); return len(connects) == 1 && len(reg.All()) == 1 }) {
		e.Violate("C08/raw-handshake-failed", "raw", "no CONNECT reply")
		return
	}
	time.Sleep(20 * time.Millisecond)
	first := reg.All()[0]
	base := e.Now()
	var emits []*c08Emit
	// one emitter task: emission order is the log order
	e.Go(func() {
		for _, op := range p.Ops {
			e.SleepUntil(base + op.At)
			em := &c08Emit{id: op.Int(0), bin: op.Int(3) == 1}
			var args []any
			args = append(args, em.id)
			if em.bin {
				args = append(args, sio.Binary(c08Bin(em.id)))
			} else {
				args = append(args, "text")
			}
			mu.Lock()
			emits = append(emits, em)
			mu.Unlock()
			em.at, em.ret = e.Now(), math.MaxInt64
			switch op.Kind {
			case "nsp":
				srv.Of("/").Emit("ev", args...)
			case "room":
				em.T = roomsOfSio(op.Int(1) | 1)
				srv.Of("/").To(em.T...).Emit("ev", args...)
			case "except":
				em.E = roomsOfSio(op.Int(2))
				srv.Of("/").Except(em.E...).Emit("ev", args...)
			case "direct":
				em.direct = true
				// to the session's socket as it is now (the first or the recovered one)
				all := reg.All()
				cur := all[len(all)-1].Socket
				if !cur.Connected() {
					em.id = -em.id // not sent: nobody to send to
					continue
				}
				cur.Emit("ev", args...)
			}
			mu.Lock()
			em.ret = e.Now()
			mu.Unlock()
		}
	})

	e.SleepUntil(base + p.C("disconnect_at"))
	stop1() // the peer stops polling and says goodbye; what it holds now is what it reconnects with
	mu.Lock()
	lastOffset := ""
	for _, g := range got {
		if g.offset != "" {
			lastOffset = g.offset
		}
	}
	pid := connects[0]["pid"]
	sid1 := connects[0]["sid"]
	mu.Unlock()
	discAt := e.Now()
	world.WaitUntil(5*time.Second, func() bool {
		for _, ev := range first.Events() {
			if ev.Kind == "disconnect" {
				return true
			}
		}
		return false
	})
	e.SleepUntil(discAt + p.C("reconnect_gap"))
	mu.Lock()
	phase = 1
	mu.Unlock()
	recAt := e.Now()
	auth, _ := json.Marshal(map[string]string{"pid": pid, "offset": lastOffset})
	_, stop2 := session(string(auth))
	world.WaitUntil(10*time.Second, func() bool { mu.Lock(); defer mu.Unlock(); return len(connects) == 2 })
	if p.B("double") {
		// The connection drops again right after the CONNECT reply: the peer comes back a second time with
		// what it held before (same private id, same offset) and must be served the same way again -
		// the log entries are shared by every session that recovers, now or later.
		time.Sleep(50 * time.Millisecond)
		mu.Lock()
		recoveredOnce := len(connects) == 2 && connects[1]["sid"] == sid1
		gotPhase1 := map[int64]bool{}
		for _, g := range got {
			if g.phase == 1 {
				gotPhase1[g.id] = true
			}
		}
		mu.Unlock()
		stop2()
		time.Sleep(100 * time.Millisecond)
		mu.Lock()
		phase = 2
		mu.Unlock()
		_, stop3 := session(string(auth))
		world.WaitUntil(10*time.Second, func() bool {
			mu.Lock()
			defer mu.Unlock()
			return len(connects) == 3 || len(connectErrors) > 0
		})
		time.Sleep(500 * time.Millisecond)
		mu.Lock()
		e.Check()
		if len(connectErrors) > 0 {
			e.Violate("C08/connect-error-on-recovery", "raw second recovery", "the CONNECT of a returning session was refused: %v", connectErrors)
		} else if len(connects) == 3 && recoveredOnce && connects[2]["sid"] == sid1 && e.Now()-discAt < int64(W)-int64(time.Second) {
			for id := range gotPhase1 {
				found := false
				for _, g := range got {
					if g.phase == 2 && g.id == id {
						found = true
					}
				}
				e.Check()
				if !found {
					e.Violate("C08/recovered-with-gap", "raw second recovery", "event #%d was replayed to the session at its first return and not at its second return from the same offset", id)
					break
				}
			}
		}
		mu.Unlock()
		stop2 = stop3
	}
	time.Sleep(time.Duration(p.Horizon) - time.Duration(e.Now()-base))
	stop2()

	// ---- oracle
	mu.Lock()
	defer mu.Unlock()
	sig := fmt.Sprintf("raw W=%ds", p.C("window_s"))
	if len(connects) < 2 {
		e.Violate("C08/no-connect-reply", sig, "the reconnecting CONNECT got no reply (replies: %v)", connects)
		return
	}
	recovered := connects[1]["sid"] == sid1
	gap := recAt - discAt
	mine := func(em *c08Emit) bool {
		rs := map[sio.Room]bool{}
		for _, r := range rooms {
			rs[r] = true
		}
		for _, r := range em.E {
			if rs[r] {
				return false
			}
		}
		if em.direct || len(em.T) == 0 {
			return true
		}
		for _, r := range em.T {
			if rs[r] {
				return true
			}
		}
		return false
	}
	// what the session had received when it disconnected, what it missed while away
	had := map[int64]bool{}
	for _, g := range got {
		if g.phase == 0 {
			had[g.id] = true
		}
	}
	var missed []int64
	for _, em := range emits {
		if em.id > 0 && mine(em) && !had[em.id] && em.at < recAt && em.at >= 0 {
			if p.B("double") && em.ret >= recAt {
				// The first return lasts 50 ms. An emission that was under way at the return may reach the
				// restored socket as a broadcast and still be in flight when the peer drops again: the
				// second return (from the same offset) must bring it then.
				in1, in2 := false, false
				for _, g := range got {
					in1 = in1 || (g.phase == 1 && g.id == em.id)
					in2 = in2 || (g.phase == 2 && g.id == em.id)
				}
				if !in1 {
					if len(connects) == 3 && connects[2]["sid"] == sid1 && !in2 {
						e.Violate("C08/recovered-with-gap", "raw second recovery", "event #%d, emitted while the session returned the first time, reached it neither then nor at its second return", em.id)
					}
					continue
				}
			}
			missed = append(missed, em.id)
		}
	}
	offAge := int64(-1)
	for _, em := range emits {
		for _, g := range got {
			if g.phase == 0 && g.id == em.id && g.offset == lastOffset {
				offAge = recAt - em.at
			}
		}
	}
	e.Check()
	if len(broken) > 0 {
		e.Violate("C08/replay-broken-framing", sig, "the recovering peer received frames it cannot decode as Socket.IO packets: %v", broken)
	}
	var replayed []int64
	for _, g := range got {
		if g.phase == 1 {
			replayed = append(replayed, g.id)
		}
	}
	// Events emitted after the reconnection are ordinary traffic, not replay. An emission that was under
	// way at the reconnection reaches a recovered session exactly once (from the log or as a broadcast);
	// it may reach a fresh session as a broadcast.
	after, afterOrDuring := map[int64]bool{}, map[int64]bool{}
	for _, em := range emits {
		if em.at >= recAt {
			after[em.id] = true
		}
		if em.ret >= recAt {
			afterOrDuring[em.id] = true
		}
	}
	var replayOnly, oldOnly []int64
	for _, id := range replayed {
		if !after[id] {
			replayOnly = append(replayOnly, id)
		}
		if !afterOrDuring[id] {
			oldOnly = append(oldOnly, id)
		}
	}
	slack := e.StallsOverlapping(discAt, recAt) + int64(50*time.Millisecond)
	switch {
	case recovered:
		if gap > int64(W)+slack {
			e.Violate("C08/restored-expired", sig, "recovered %v after the disconnect, window %v", time.Duration(gap), W)
		}
		if connects[1]["pid"] != pid {
			e.Violate("C08/restored-wrong-state", sig, "recovered with pid %q, had %q", connects[1]["pid"], pid)
		}
		if fmt.Sprint(replayOnly) != fmt.Sprint(missed) {
			cls := "C08/recovered-with-gap"
			if len(replayOnly) > len(missed) {
				cls = "C08/recovered-with-extra"
			}
			e.Violate(cls, sig, "recovered from offset %q: replayed %v, missed while away %v (had before: %v)", lastOffset, replayOnly, missed, keysInt(had))
		}
		if !p.B("double") {
			// What is emitted after the peer set out to return is addressed to the session as well: it is
			// in the log before the scan, or broadcast after the admission - never in between.
			endAt := base + p.Horizon - int64(time.Second)
			for _, em := range emits {
				if em.id <= 0 || !mine(em) || em.at < recAt || em.ret >= endAt {
					continue
				}
				cnt := 0
				for _, g := range got {
					if g.phase >= 1 && g.id == em.id {
						cnt++
					}
				}
				e.Check()
				if cnt == 0 {
					e.Violate("C08/recovered-with-gap", sig, "event #%d, emitted %v after the peer set out to return (it recovered from offset %q), never reached it", em.id, time.Duration(em.at-recAt), lastOffset)
					break
				} else if cnt > 1 {
					e.Violate("C08/recovered-with-duplicate", sig, "event #%d, emitted %v after the peer set out to return, reached it %d times", em.id, time.Duration(em.at-recAt), cnt)
					break
				}
			}
		}
		for _, g := range got {
			if g.phase == 1 && g.bin != "" && g.bin != base64.StdEncoding.EncodeToString(c08Bin(g.id)) {
				e.Violate("C08/replay-altered", sig, "replayed binary packet #%d carries %.40q, the original attachment is %.40q", g.id, g.bin, base64.StdEncoding.EncodeToString(c08Bin(g.id)))
			}
		}
		want := []string{sid1}
		for _, r := range rooms {
			want = append(want, string(r))
		}
		sort.Strings(want)
		if !recoveredAny || (recoveredSeen && fmt.Sprint(recoveredRooms) != fmt.Sprint(want)) {
			e.Violate("C08/restored-wrong-state", sig, "recovered socket: Recovered() seen by the connection handler=%v, rooms %v, want %v", recoveredAny, recoveredRooms, want)
		}
		if len(missed) > 0 {
			e.NonTrivial()
		}
	default:
		mayRefuse := gap >= int64(W)-slack || lastOffset == "" || offAge < 0 || offAge >= int64(W)-slack
		if !mayRefuse {
			e.Violate("C08/refused-within-window", sig, "reconnected %v after the disconnect (window %v) with pid and offset %q (packet %v old) and got a fresh session %s", time.Duration(gap), W, lastOffset, time.Duration(offAge), connects[1]["sid"])
		}
		if len(oldOnly) > 0 {
			e.Violate("C08/fresh-session-replayed", sig, "a session not marked recovered received old packets %v", oldOnly)
		}
		if gap >= int64(W) {
			e.NonTrivial()
		}
	}
	e.Shape(fmt.Sprintf("raw rec%v missed%d", recovered, len(missed)))
	e.Sample = map[string]any{"mode": "raw", "window_s": p.C("window_s"), "gap_ms": gap / 1e6, "recovered": recovered, "missed": missed, "replayed": replayOnly, "rooms": rooms}
}

func c08Bin(id int64) []byte {
	b := make([]byte, 5+id%7)
	for i := range b {
		b[i] = byte(id*31 + int64(i))
	}
	return b
}

func roomsOfSio(mask int64) []sio.Room {
	var out []sio.Room
	for i := 0; i < 3; i++ {
		if mask&(1<<i) != 0 {
			out = append(out, sio.Room(c04Rooms[i]))
		}
	}
	return out
}

func runC08GoClient(e *sim.Env) {
	p := e.Plan
	W := time.Duration(p.C("window_s")) * time.Second
	w := world.New(e, world.NetConfigFromPlan(p))
	reg := w.NewSrvReg()
	rooms := roomsOfSio(p.C("rooms"))
	reg.OnNew = func(s *world.SrvSock) {
		if !s.Socket.Recovered() && len(rooms) > 0 {
			s.Socket.Join(rooms...)
		}
	}
	srv := w.StartServer(world.ServerOpts{Recovery: true, MaxDisconnect: W, PingInterval: 25 * time.Second, PingTimeout: 20 * time.Minute,
		Configure: func(s *sio.Server) { reg.Watch(s.Of("/")) }})
	d, dm := 100*time.Millisecond, 200*time.Millisecond
	var jit float32
	cli := w.NewSioClient(0, "/", world.ClientOpts{Transports: []string{"websocket"}, ReconnectionDelay: &d, ReconnectionDelayMax: &dm, RandomizationFactor: &jit}, nil)
	var mu sync.Mutex
	type rec struct {
		id    int64
		bin   string
		text  string
		at    int64
		phase int
	}
	var got []rec
	phase := 0
	handlerTime := time.Duration(p.C("handler_us")) * time.Microsecond
	cli.Socket.OnEvent("ev", func(id int, text string) {
		time.Sleep(handlerTime)
		mu.Lock()
		got = append(got, rec{id: int64(id), text: text, at: e.Now(), phase: phase})
		mu.Unlock()
		e.Log(100, "cli.event", "#%d text", id)
	})
	cli.Socket.OnEvent("evb", func(id int, b sio.Binary) {
		time.Sleep(handlerTime)
		mu.Lock()
		got = append(got, rec{id: int64(id), bin: base64.StdEncoding.EncodeToString(b), at: e.Now(), phase: phase})
		mu.Unlock()
		e.Log(100, "cli.event", "#%d binary %dB", id, len(b))
	})
	cli.Socket.Connect()
	if !world.WaitUntil(10*time.Second, func() bool { return cli.Socket.Connected() && len(reg.All()) == 1 }) {
		e.Violate("C08/connect-failed", "goclient", "no connection")
		return
	}
	sid1 := cli.Socket.ID()
	time.Sleep(20 * time.Millisecond)
	base := e.Now()
	var emits []*c08Emit
	e.Go(func() {
		for _, op := range p.Ops {
			e.SleepUntil(base + op.At)
			em := &c08Emit{id: op.Int(0), bin: op.Int(3) == 1}
			name := "ev"
			args := []any{em.id, "text"}
			if em.bin {
				name = "evb"
				args = []any{em.id, sio.Binary(c08Bin(em.id))}
			}
			mu.Lock()
			emits = append(emits, em)
			mu.Unlock()
			em.at = e.Now()
			switch op.Kind {
			case "nsp":
				srv.Of("/").Emit(name, args...)
			case "room":
				em.T = roomsOfSio(op.Int(1) | 1)
				srv.Of("/").To(em.T...).Emit(name, args...)
			case "except":
				em.E = roomsOfSio(op.Int(2))
				srv.Of("/").Except(em.E...).Emit(name, args...)
			case "direct":
				em.direct = true
				all := reg.All()
				cur := all[len(all)-1].Socket
				if !cur.Connected() {
					em.id = -em.id
					continue
				}
				cur.Emit(name, args...)
			}
		}
	})
	// the outage: the connection is cut and dials are refused for the gap, then the client reconnects by itself
	e.SleepUntil(base + p.C("disconnect_at"))
	w.Net.Apply(sim.Fault{Kind: "refuse", Target: "c0*"})
	w.Net.Apply(sim.Fault{Kind: "cut", Target: "c0*"})
	discAt := e.Now()
	e.SleepUntil(discAt + p.C("reconnect_gap"))
	mu.Lock()
	phase = 1
	mu.Unlock()
	w.Net.Apply(sim.Fault{Kind: "heal", Target: "*"})
	healAt := e.Now()
	reconnected := world.WaitUntil(20*time.Second, func() bool { return cli.Socket.Connected() })
	recAt := e.Now()
	time.Sleep(5 * time.Second)

	mu.Lock()
	defer mu.Unlock()
	sig := fmt.Sprintf("goclient W=%ds", p.C("window_s"))
	e.Check()
	if !reconnected {
		e.Violate("C08/client-never-reconnected", sig, "20 s after the network healed (t=%d) the client is still not connected; its events: %v", healAt, cli.Events())
		return
	}
	recovered := cli.Socket.ID() == sid1
	gap := recAt - discAt
	mine := func(em *c08Emit) bool {
		rs := map[sio.Room]bool{}
		for _, r := range rooms {
			rs[r] = true
		}
		for _, r := range em.E {
			if rs[r] {
				return false
			}
		}
		if em.direct || len(em.T) == 0 {
			return true
		}
		for _, r := range em.T {
			if rs[r] {
				return true
			}
		}
		return false
	}
	had := map[int64]bool{}
	cnt := map[int64]int{}
	for _, g := range got {
		cnt[g.id]++
		if g.at <= discAt {
			had[g.id] = true
		}
	}
	for id, n := range cnt {
		if n > 1 {
			e.Violate("C08/recovered-with-duplicate", sig, "event #%d reached the client's handler %d times", id, n)
		}
	}
	slack := e.StallsOverlapping(discAt, recAt) + int64(500*time.Millisecond)
	if recovered != cli.Socket.Recovered() {
		e.Violate("C08/restored-wrong-state", sig, "socket id kept=%v but Recovered()=%v", recovered, cli.Socket.Recovered())
	}
	if recovered {
		if gap > int64(W)+slack {
			e.Violate("C08/restored-expired", sig, "recovered %v after the disconnect, window %v", time.Duration(gap), W)
		}
		// every event addressed to the session and emitted while it was away (cut .. reconnect) must arrive exactly once
		for _, em := range emits {
			if em.id <= 0 || !mine(em) || em.at <= discAt+int64(50*time.Millisecond) || em.at >= healAt {
				continue
			}
			e.Check()
			if cnt[em.id] == 0 {
				e.Violate("C08/recovered-with-gap", sig, "recovered, but event #%d emitted while the client was away (t=%d, outage %d..%d) never reached its handler", em.id, em.at, discAt, healAt)
			}
		}
		for _, g := range got {
			if g.bin != "" && g.bin != base64.StdEncoding.EncodeToString(c08Bin(g.id)) {
				e.Violate("C08/replay-altered", sig, "binary event #%d arrived as %.40q, sent %.40q", g.id, g.bin, base64.StdEncoding.EncodeToString(c08Bin(g.id)))
			}
		}
		e.NonTrivial()
	} else {
		// a window-sized margin: the server learns of the cut at once (RST), so the session age is the gap
		if gap < int64(W)-slack-int64(time.Second) && len(had) > 0 {
			e.Violate("C08/refused-within-window", sig, "the client reconnected %v after the cut (window %v) and got a fresh session", time.Duration(gap), W)
		}
		if gap >= int64(W) {
			e.NonTrivial()
		}
	}
	e.Shape(fmt.Sprintf("goclient rec%v", recovered))
	e.Sample = map[string]any{"mode": "goclient", "window_s": p.C("window_s"), "gap_ms": gap / 1e6, "recovered": recovered, "events_received": len(got)}
}
