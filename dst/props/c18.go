package props

import (
	"fmt"
	"sort"
	"strings"
	"sync"
	"time"

	sio "github.com/karagenc/socket.io-go"

	"verif/dst/sim"
)

// C18 — On fires every time, Once at most once, Off removes just what it names.
//
// Public API only, no network needed: named events of a namespace are registered with
// OnEvent/OnceEvent/OffEvent/OffAll and fired with OnServerSideEmit; lifecycle handlers of the server
// (OnNewNamespace/OnceNewNamespace/OffNewNamespace) are fired by creating namespaces.
// Modes:
//   events     sequential program over 3 events x 6 distinct function literals against a reference model
//   lifecycle  the same over the new-namespace lifecycle handlers
//   race       k occurrences racing Once / On / Off from several tasks, under stalls on the store mutex

func init() {
	Register(&Property{
		ID: "C18", Title: "Handlers: On fires every time, Once at most once, Off removes just what it names",
		Level: "exploration",
		Modes: []Mode{{Name: "events", Weight: 4}, {Name: "lifecycle", Weight: 3}, {Name: "race", Weight: 4}},
		Gen:   genC18, Run: runC18,
		QuickRuns: 10000, ThoroughRuns: 750000,
		Rule: "plan = program of 4..40 operations out of {On, Once, Off(h), Off(h1,h2[,h3]), Off() of an event, OffAll, fire} over 3 events and 6 distinct function literals (same handler registered twice, removal of absent handlers included), or (race) 2..6 tasks firing one event 1..8 times each while others register Once/On and remove; stall parameters focused on store.go; from VERIF_SEED. " +
			"non-trivial = at least one Off with a present handler and one fire after it (sequential) / at least two fires overlapped (race); distinct = distinct program x history digest",
		Assumptions: []string{
			"where the statement leaves a choice the model is set-valued: after Off(h) of a handler registered twice, one registration left or none left are both accepted",
			"handlers run on goroutines of the library; each fire is followed by a settle of 10 ms of fake time in sequential modes",
		},
		Real: []string{"sio.Server, sio.Namespace, eventHandlerStore, handlerStore (store.go) through the public On/Once/Off/OffAll methods"},
		Stub: commonStub,
	})
}

const c18H = 6

func genC18(p *sim.Plan, r *sim.Rand, tier string) {
	p.Stall = DrawStall(r, 200_000_000, "store.go")
	switch p.Mode {
	case "events", "lifecycle":
		n := r.Range(4, 40)
		for i := 0; i < n; i++ {
			ev := int64(r.Intn(3))
			if p.Mode == "lifecycle" {
				ev = 0
			}
			h := int64(r.Intn(c18H))
			var op sim.Op
			switch r.Weighted([]int{5, 4, 4, 2, 1, 1, 6}) {
			case 0:
				op = sim.Op{Kind: "on", I: []int64{ev, h}}
			case 1:
				op = sim.Op{Kind: "once", I: []int64{ev, h}}
			case 2:
				op = sim.Op{Kind: "off", I: []int64{ev, h}}
			case 3:
				hs := []int64{ev, h, int64(r.Intn(c18H))}
				if r.Bool(0.4) {
					hs = append(hs, int64(r.Intn(c18H)))
				}
				op = sim.Op{Kind: "off", I: hs}
			case 4:
				op = sim.Op{Kind: "offev", I: []int64{ev}}
			case 5:
				op = sim.Op{Kind: "offall"}
			default:
				op = sim.Op{Kind: "fire", I: []int64{ev}}
			}
			op.At = int64(i) * int64(20*time.Millisecond)
			p.Ops = append(p.Ops, op)
		}
		p.Horizon = int64(n+2) * int64(20*time.Millisecond)
	case "race":
		tasks := r.Range(2, 6)
		for t := 0; t < tasks; t++ {
			at := r.I64n(1000)
			for k := 0; k < r.Range(1, 8); k++ {
				kind := []string{"fire", "fire", "fire", "once", "on", "off"}[r.Intn(6)]
				p.Ops = append(p.Ops, sim.Op{At: at, Actor: t, Kind: kind, I: []int64{0, int64(r.Intn(c18H))}})
				if r.Bool(0.5) {
					at += int64(r.LogDur(1, 2*time.Millisecond))
				}
			}
		}
		p.Horizon = int64(time.Second)
		// which store: the per-event one (Namespace.OnEvent ... fired by OnServerSideEmit) or the
		// lifecycle one (Server.OnNewNamespace ... fired by creating namespaces, from several tasks at once)
		p.Set("store", int64(r.Intn(2)))
		if p.C("store") == 1 {
			// one Once registration made well before anything fires: it must run exactly once
			p.Ops = append(p.Ops, sim.Op{At: 0, Actor: 99, Kind: "once", I: []int64{0, 0}})
			for i := range p.Ops {
				if p.Ops[i].Actor != 99 {
					p.Ops[i].At += 5_000_000
				}
			}
		}
	}
}

type c18Rec struct {
	mu   sync.Mutex
	hits []int // handler indexes entered, in order
}

func (r *c18Rec) hit(h int) { r.mu.Lock(); r.hits = append(r.hits, h); r.mu.Unlock() }
func (r *c18Rec) take() []int {
	r.mu.Lock()
	defer r.mu.Unlock()
	out := r.hits
	r.hits = nil
	return out
}

// Six distinct function literals per kind (identity is by code pointer for event handlers).
func c18EventHandlers(rec *c18Rec) [c18H]func() {
	return [c18H]func(){
		func() { rec.hit(0) }, func() { rec.hit(1) }, func() { rec.hit(2) },
		func() { rec.hit(3) }, func() { rec.hit(4) }, func() { rec.hit(5) },
	}
}

func c18NsHandlers(rec *c18Rec) [c18H]sio.ServerNewNamespaceFunc {
	return [c18H]sio.ServerNewNamespaceFunc{
		func(*sio.Namespace) { rec.hit(0) }, func(*sio.Namespace) { rec.hit(1) }, func(*sio.Namespace) { rec.hit(2) },
		func(*sio.Namespace) { rec.hit(3) }, func(*sio.Namespace) { rec.hit(4) }, func(*sio.Namespace) { rec.hit(5) },
	}
}

type c18Reg struct {
	h    int
	once bool
}

func runC18(e *sim.Env) {
	if e.Plan.Mode == "race" {
		runC18Race(e)
		return
	}
	p := e.Plan
	srv := sio.NewServer(nil)
	nsp := srv.Of("/c18")
	rec := &c18Rec{}
	evh := c18EventHandlers(rec)
	nsh := c18NsHandlers(rec)
	life := p.Mode == "lifecycle"
	evName := func(i int64) string { return []string{"a", "b", "ab"}[i] }

	// model: per event, the set of possible registration lists (set-valued where the statement leaves a choice)
	type state = [][]c18Reg
	model := map[int64]state{0: {{}}, 1: {{}}, 2: {{}}}
	nsCount := 0
	offPresent, fireAfterOff := false, false
	call := func(what string, f func()) bool {
		ok := true
		func() {
			defer func() {
				if r := recover(); r != nil {
					ok = false
					e.Violate("C18/call-panicked", strings.Fields(what)[0]+": "+stripNums(fmt.Sprint(r)), "%s panicked: %v", what, r)
				}
			}()
			f()
		}()
		return ok
	}
	var prog []string
	for _, op := range p.Ops {
		e.SleepUntil(op.At)
		ev := op.Int(0)
		desc := op.Kind + fmt.Sprint(op.I)
		prog = append(prog, desc)
		e.Log(0, "op", "%s", desc)
		switch op.Kind {
		case "on", "once":
			h := int(op.Int(1))
			once := op.Kind == "once"
			okc := call(desc, func() {
				switch {
				case life && once:
					srv.OnceNewNamespace(nsh[h])
				case life:
					srv.OnNewNamespace(nsh[h])
				case once:
					nsp.OnceEvent(evName(ev), evh[h])
				default:
					nsp.OnEvent(evName(ev), evh[h])
				}
			})
			if !okc {
				return
			}
			for i := range model[ev] {
				model[ev][i] = append(append([]c18Reg(nil), model[ev][i]...), c18Reg{h, once})
			}
		case "off":
			hs := op.I[1:]
			okc := call(desc, func() {
				if life {
					var fs []sio.ServerNewNamespaceFunc
					for _, h := range hs {
						fs = append(fs, nsh[h])
					}
					srv.OffNewNamespace(fs...)
				} else {
					var fs []any
					for _, h := range hs {
						fs = append(fs, evh[h])
					}
					nsp.OffEvent(evName(ev), fs...)
				}
			})
			if !okc {
				return
			}
			// each named handler: remove one registration or all of them (both accepted)
			var next state
			seen := map[string]bool{}
			for _, regs := range model[ev] {
				cands := state{regs}
				for _, h := range uniq(hs) {
					var nc state
					for _, c := range cands {
						cnt := 0
						for _, r := range c {
							if r.h == int(h) {
								cnt++
							}
						}
						if cnt == 0 {
							nc = append(nc, c)
							continue
						}
						offPresent = true
						// all removed
						var all []c18Reg
						for _, r := range c {
							if r.h != int(h) {
								all = append(all, r)
							}
						}
						nc = append(nc, all)
						if cnt > 1 {
							// exactly one removed: any one of them
							for k := range c {
								if c[k].h == int(h) {
									one := append(append([]c18Reg(nil), c[:k]...), c[k+1:]...)
									nc = append(nc, one)
								}
							}
						}
					}
					cands = nc
				}
				for _, c := range cands {
					k := fmt.Sprint(c)
					if !seen[k] {
						seen[k] = true
						next = append(next, c)
					}
				}
			}
			model[ev] = next
		case "offev":
			okc := call(desc, func() {
				if life {
					srv.OffNewNamespace()
				} else {
					nsp.OffEvent(evName(ev))
				}
			})
			if !okc {
				return
			}
			model[ev] = state{{}}
		case "offall":
			okc := call(desc, func() {
				if life {
					srv.OffNewNamespace()
				} else {
					nsp.OffAll()
				}
			})
			if !okc {
				return
			}
			if life {
				model[0] = state{{}}
			} else {
				model = map[int64]state{0: {{}}, 1: {{}}, 2: {{}}}
			}
		case "fire":
			rec.take()
			okc := call(desc, func() {
				if life {
					nsCount++
					srv.Of(fmt.Sprintf("/n%d", nsCount))
				} else {
					nsp.OnServerSideEmit(evName(ev))
				}
			})
			if !okc {
				return
			}
			time.Sleep(10 * time.Millisecond)
			got := rec.take()
			sort.Ints(got)
			e.Check()
			if offPresent {
				fireAfterOff = true
			}
			// which model states explain what ran?
			var next state
			var wants []string
			for _, regs := range model[ev] {
				var want []int
				var rest []c18Reg
				for _, r := range regs {
					want = append(want, r.h)
					if !r.once {
						rest = append(rest, r)
					}
				}
				sort.Ints(want)
				wants = append(wants, fmt.Sprint(want))
				if fmt.Sprint(want) == fmt.Sprint(got) {
					next = append(next, rest)
				}
			}
			if len(next) == 0 {
				kind := "C18/wrong-handlers-ran"
				sig := p.Mode
				if len(got) > 0 && len(wants) == 1 && wants[0] == "[]" {
					sig += " removed handler still runs"
				}
				e.Violate(kind, sig, "after %v the occurrence of %q entered handlers %v; the registrations allow only %v", prog, evName(ev), got, wants)
				return
			}
			model[ev] = next
		}
	}
	if fireAfterOff {
		e.NonTrivial()
	}
	e.Shape(strings.Join(prog, " "))
	e.Sample = map[string]any{"mode": p.Mode, "program": prog}
}

func uniq(xs []int64) []int64 {
	var out []int64
	seen := map[int64]bool{}
	for _, x := range xs {
		if !seen[x] {
			seen[x] = true
			out = append(out, x)
		}
	}
	return out
}

func runC18Race(e *sim.Env) {
	if e.Plan.C("store") == 1 {
		runC18RaceLifecycle(e)
		return
	}
	p := e.Plan
	srv := sio.NewServer(nil)
	nsp := srv.Of("/c18")
	var mu sync.Mutex
	onceHits := map[int]int{} // registration serial -> times entered
	onHits := 0
	serial := 0
	fires := 0
	firstFire, lastFire := int64(-1), int64(-1)
	evh := [c18H]func(){} // distinct literals for Off identity
	rec := &c18Rec{}
	evh = c18EventHandlers(rec)
	// a permanent On handler registered before any fire: must run for every occurrence
	nsp.OnEvent("a", func() { mu.Lock(); onHits++; mu.Unlock() })
	byActor := map[int][]sim.Op{}
	for _, op := range p.Ops {
		byActor[op.Actor] = append(byActor[op.Actor], op)
	}
	actors := []int{}
	for a := range byActor {
		actors = append(actors, a)
	}
	sort.Ints(actors)
	panicked := false
	for _, a := range actors {
		a := a
		ops := byActor[a]
		e.Go(func() {
			defer func() {
				if r := recover(); r != nil {
					panicked = true
					e.Violate("C18/call-panicked", "race: "+stripNums(fmt.Sprint(r)), "task %d: %v", a, r)
				}
			}()
			for _, op := range ops {
				e.SleepUntil(op.At)
				switch op.Kind {
				case "fire":
					mu.Lock()
					fires++
					if firstFire < 0 {
						firstFire = e.Now()
					}
					lastFire = e.Now()
					mu.Unlock()
					nsp.OnServerSideEmit("a")
				case "once":
					mu.Lock()
					serial++
					id := serial
					mu.Unlock()
					nsp.OnceEvent("a", func() { mu.Lock(); onceHits[id]++; mu.Unlock() })
				case "on":
					nsp.OnEvent("a", evh[op.Int(1)])
				case "off":
					nsp.OffEvent("a", evh[op.Int(1)])
				}
			}
		})
	}
	time.Sleep(time.Duration(p.Horizon))
	_, _ = panicked, lastFire
	mu.Lock()
	defer mu.Unlock()
	ids := []int{}
	for id := range onceHits {
		ids = append(ids, id)
	}
	sort.Ints(ids)
	for _, id := range ids {
		e.Check()
		if onceHits[id] > 1 {
			e.Violate("C18/once-ran-twice", "race", "a Once handler (registration %d) ran %d times while %d occurrences raced", id, onceHits[id], fires)
		}
	}
	e.Check()
	if onHits != fires {
		e.Violate("C18/on-missed-occurrence", "race", "the handler registered with On before the first occurrence ran %d times for %d occurrences", onHits, fires)
	}
	if fires >= 2 {
		e.NonTrivial()
	}
	e.Shape(fmt.Sprintf("race fires%d once%d", fires, serial))
	e.Sample = map[string]any{"mode": "race", "occurrences": fires, "once_registrations": serial, "tasks": len(actors)}
}

// runC18RaceLifecycle: the same race against the lifecycle handler store (Server.On/Once/OffNewNamespace),
// whose occurrences are the creations of namespaces by several tasks at once.
func runC18RaceLifecycle(e *sim.Env) {
	p := e.Plan
	srv := sio.NewServer(nil)
	var mu sync.Mutex
	onceHits := map[int]int{}
	onHits, serial, fires := 0, 0, 0
	earlyOnce := -1
	var hs [c18H]sio.ServerNewNamespaceFunc
	for i := range hs {
		hs[i] = func(*sio.Namespace) {}
	}
	srv.OnNewNamespace(func(*sio.Namespace) { mu.Lock(); onHits++; mu.Unlock() })
	byActor := map[int][]sim.Op{}
	for _, op := range p.Ops {
		byActor[op.Actor] = append(byActor[op.Actor], op)
	}
	actors := []int{}
	for a := range byActor {
		actors = append(actors, a)
	}
	sort.Ints(actors)
	// the early Once registration is made by the root task and has returned before any task starts
	if _, ok := byActor[99]; ok {
		serial++
		earlyOnce = serial
		id := serial
		srv.OnceNewNamespace(func(*sio.Namespace) { mu.Lock(); onceHits[id]++; mu.Unlock() })
		delete(byActor, 99)
	}
	for _, a := range actors {
		a := a
		ops := byActor[a]
		e.Go(func() {
			defer func() {
				if r := recover(); r != nil {
					e.Violate("C18/call-panicked", "race: "+stripNums(fmt.Sprint(r)), "task %d: %v", a, r)
				}
			}()
			for k, op := range ops {
				e.SleepUntil(op.At)
				switch op.Kind {
				case "fire":
					mu.Lock()
					fires++
					mu.Unlock()
					srv.Of(fmt.Sprintf("/c18-%d-%d", a, k))
				case "once":
					mu.Lock()
					serial++
					id := serial
					if a == 99 {
						earlyOnce = id
					}
					mu.Unlock()
					srv.OnceNewNamespace(func(*sio.Namespace) { mu.Lock(); onceHits[id]++; mu.Unlock() })
				case "on":
					srv.OnNewNamespace(hs[op.Int(1)])
				case "off":
					srv.OffNewNamespace(hs[op.Int(1)])
				}
			}
		})
	}
	time.Sleep(time.Duration(p.Horizon))
	mu.Lock()
	defer mu.Unlock()
	ids := []int{}
	for id := range onceHits {
		ids = append(ids, id)
	}
	sort.Ints(ids)
	for _, id := range ids {
		e.Check()
		if onceHits[id] > 1 {
			e.Violate("C18/once-ran-twice", "race lifecycle", "a handler registered with OnceNewNamespace (registration %d) ran %d times while %d namespaces were created concurrently", id, onceHits[id], fires)
		}
	}
	e.Check()
	if earlyOnce >= 0 && fires > 0 && onceHits[earlyOnce] != 1 {
		e.Violate("C18/once-never-ran", "race lifecycle", "the handler registered with OnceNewNamespace before any of the %d namespace creations began ran %d times", fires, onceHits[earlyOnce])
	}
	e.Check()
	if onHits != fires {
		e.Violate("C18/on-missed-occurrence", "race lifecycle", "the handler registered with OnNewNamespace before the first creation ran %d times for %d creations", onHits, fires)
	}
	if fires >= 2 {
		e.NonTrivial()
	}
	e.Shape(fmt.Sprintf("race lifecycle fires%d once%d", fires, serial))
	e.Sample = map[string]any{"mode": "race", "store": "lifecycle (Server.On/Once/OffNewNamespace)", "occurrences": fires, "once_registrations": serial, "tasks": len(actors)}
}
