package props

import (
	"fmt"
	"strconv"
	"time"

	eio "github.com/karagenc/socket.io-go/engine.io"
	eioparser "github.com/karagenc/socket.io-go/engine.io/parser"

	"verif/dst/sim"
	"verif/dst/world"
)

// C14 — heartbeats: a dead peer is detected within pingInterval+pingTimeout, a
// live one is never killed.
//
// Modes:
//   dead  the link is silently black-holed (both ways / one way) at a drawn phase of the
//         heartbeat schedule or of the upgrade; both ends must report a close, with a
//         ping-time-out (or transport) reason, within the bound measured from the last
//         heartbeat that end received.
//   live  a healthy link with latency, jitter, stalls and application traffic at every
//         phase offset for 50+ heartbeat periods; nobody may close.

func init() {
	Register(&Property{
		ID: "C14", Title: "Heartbeats detect a dead peer within the configured bound, never kill a live one",
		Level: "fault_enumeration",
		Modes: []Mode{{Name: "dead", Weight: 6}, {Name: "live", Weight: 4}},
		Gen:   genC14, Run: runC14, Fixed: fixedC14,
		QuickRuns: 5000, ThoroughRuns: 360000,
		Rule: "[live mode also: WebSocket paths 3x-14x slower than the polling path, so that the upgrade lasts about one heartbeat period and the first ping falls into the switch-over] plan = (transport, pingInterval, pingTimeout in 1..3 s, network latency/jitter/chunking, black-hole direction and instant | traffic script, stall parameters) from VERIF_SEED, " +
			"plus a fixed sweep of black-hole instants across one heartbeat period per transport and direction; non-trivial = the fault fired on an established session (dead) or >= 20 heartbeat rounds completed (live); " +
			"distinct = distinct history digest among non-trivial runs",
		Assumptions: []string{
			"the bound is measured at the application's OnClose callback, from the last heartbeat packet that side received (its OnPacket callback), plus the injected stalls overlapping that interval",
			"live mode caps latency and total stall so that no heartbeat round can legitimately exceed pingTimeout",
			"WebTransport is not simulated",
		},
		Real: commonReal, Stub: commonStub,
	})
}

func genC14(p *sim.Plan, r *sim.Rand, tier string) {
	world.DrawNet(p, r)
	p.Set("tr", int64(r.Intn(3)))
	I := int64(r.Range(1, 3)) * 1000
	T := int64(r.Range(1, 3)) * 1000
	p.Set("ping_interval_ms", I)
	p.Set("ping_timeout_ms", T)
	switch p.Mode {
	case "dead":
		p.Stall = DrawStall(r, 300_000_000)
		dirs := []string{"", "c2s", "s2c"}
		dir := dirs[r.Intn(3)]
		// phase: k periods in, then a drawn offset around the ping instant
		k := int64(r.Intn(4))
		var off int64
		switch r.Intn(5) {
		case 0: // during connect / upgrade
			k = 0
			off = r.I64n(6*(p.C("lat_us")*1000+1) + 2_000_000)
		case 1: // just before a ping leaves
			off = I*1_000_000 - r.I64n(1000) - 1
		case 2: // just after: ping in flight / pong in flight
			off = I*1_000_000 + r.I64n(4*(p.C("lat_us")*1000+1)+1000)
		default:
			off = r.I64n(I * 1_000_000)
		}
		at := k*I*1_000_000 + off
		p.Faults = []sim.Fault{{At: at, Kind: "blackhole", Target: "*", Dir: dir}}
		p.Horizon = at + (I+T)*1_000_000 + int64(90*time.Second)
		// application messages before the fault, at drawn phases of the heartbeat (in half of the plans)
		if r.Bool(0.5) && at > 10_000_000 {
			// (as in live mode, the latency is capped then: with 150 ms +- 150 ms and long-polling, a ping
			// queued behind a message waits for the next poll request and a healthy heartbeat round can
			// legitimately exceed a 1 s pingTimeout - the session would end before the fault)
			if p.C("lat_us") > 35000 {
				p.Set("lat_us", 35000)
				p.Set("jit_us", 5000)
			}
			for i := 0; i < r.Range(1, 6); i++ {
				p.Ops = append(p.Ops, sim.Op{At: r.I64n(at), Actor: r.Intn(2), Kind: "msg", I: []int64{int64(i), int64(r.Range(0, 200))}})
			}
		}
	case "live":
		if p.C("lat_us") > 35000 {
			p.Set("lat_us", 35000)
			p.Set("jit_us", 5000)
		}
		p.Stall = DrawStall(r, 150_000_000)
		if p.Stall.MaxNs > 20_000_000 {
			p.Stall.MaxNs = 20_000_000
		}
		periods := int64(r.Range(50, 80))
		total := periods * I * 1_000_000
		n := r.Range(0, 40)
		for i := 0; i < n; i++ {
			// traffic at every phase offset relative to the ping schedule
			at := r.I64n(total)
			if r.Bool(0.4) {
				at = (1+r.I64n(periods-1))*I*1_000_000 + r.I64n(2_000_000) - 1_000_000
			}
			who := int(r.Intn(2)) // 0 client sends, 1 server sends
			p.Ops = append(p.Ops, sim.Op{At: at, Actor: who, Kind: "msg", I: []int64{int64(i), int64(r.Range(0, 2000))}})
		}
		p.Horizon = total
		if p.C("tr") == 2 && r.Bool(0.4) {
			// an upgrade that takes about as long as a heartbeat period (slow WebSocket path): the first
			// ping falls into the switch-over, when no poll request is waiting and the new transport is
			// not in charge yet
			p.Set("lat_us", 20000)
			p.Set("jit_us", 2000)
			p.Set("lat_ws_pct", int64(r.Range(300, 1400)))
		}
	}
}

// fixedC14: black-hole instants swept across one heartbeat period, per transport and direction.
func fixedC14(tier string, seed uint64) []*sim.Plan {
	steps := 8
	if tier == "thorough" {
		steps = 40
	}
	var out []*sim.Plan
	idx := 0
	for tr := int64(0); tr < 3; tr++ {
		for _, dir := range []string{"", "c2s", "s2c"} {
			for s := 0; s <= steps; s++ {
				p := sim.NewPlan("C14", "dead", seed, 1_000_000+idx)
				idx++
				p.Set("tr", tr)
				p.Set("ping_interval_ms", 1000)
				p.Set("ping_timeout_ms", 1000)
				p.Set("lat_us", 2000)
				p.SetB("chunk", true)
				p.Stall = sim.StallCfg{BudgetNs: 0}
				at := int64(900_000_000) + int64(s)*int64(1_200_000_000)/int64(steps)
				p.Faults = []sim.Fault{{At: at, Kind: "blackhole", Target: "*", Dir: dir}}
				if s%2 == 1 {
					p.Ops = []sim.Op{{At: 300_000_000, Actor: 0, Kind: "msg", I: []int64{0, 10}}, {At: 450_000_000, Actor: 1, Kind: "msg", I: []int64{1, 10}}}
				}
				p.Horizon = at + int64(2*time.Second) + int64(90*time.Second)
				p.CfgS["fixed"] = fmt.Sprintf("tr=%d dir=%q step=%d/%d", tr, dir, s, steps)
				out = append(out, p)
			}
		}
	}
	return out
}

var pingTimeoutReasons = map[eio.Reason]bool{
	eio.ReasonPingTimeout: true, eio.ReasonTransportClose: true, eio.ReasonTransportError: true,
}

func runC14(e *sim.Env) {
	p := e.Plan
	I := world.Ms(p.C("ping_interval_ms"))
	T := world.Ms(p.C("ping_timeout_ms"))
	netCfg := world.NetConfigFromPlan(p)
	if pct := p.C("lat_ws_pct"); pct > 0 {
		netCfg.LatPct = map[string]int64{"c0w": pct}
	}
	w := world.New(e, netCfg)
	es := w.StartEIOServer(&eio.ServerConfig{PingInterval: I, PingTimeout: T, UpgradeTimeout: 3 * time.Second})
	w.Net.Schedule(p.Faults)

	upgraded := int64(-1)
	var cli *world.EIOSide
	var dialErr error
	e.Go(func() {
		cli, dialErr = w.DialEIO(0, world.ClientOpts{Transports: world.Transports(p.C("tr")), UpgradeTimeout: 3 * time.Second,
			UpgradeDone: func(string) { upgraded = e.Now(); e.Log(0, "cli.upgraded", "") }})
	})

	if p.Mode == "live" || len(p.Ops) > 0 {
		// (dead mode: application traffic before the link goes silent - data is no substitute for a heartbeat)
		for _, op := range p.Ops {
			op := op
			e.Go(func() {
				e.SleepUntil(op.At)
				data := []byte("m" + strconv.FormatInt(op.Int(0), 10) + ":" + string(make([]byte, op.Int(1))))
				pk, _ := eioparser.NewPacket(eioparser.PacketTypeMessage, false, data)
				if op.Actor == 0 {
					if cli != nil && cli.Socket != nil {
						cli.Socket.Send(pk)
					}
				} else {
					for _, s := range es.Sides() {
						s.Socket.Send(pk)
					}
				}
			})
		}
	}

	time.Sleep(time.Duration(p.Horizon))
	_ = upgraded

	// ---- oracle
	if p.Mode == "dead" {
		faultAt := p.Faults[0].At
		if dialErr != nil || cli == nil || cli.Socket == nil {
			// the black hole landed inside the handshake: nothing was established on the client.
			e.Probe("fault-before-established")
			// whatever the server created must still be cleaned up by its own heartbeat
			for _, s := range es.Sides() {
				_, cl, _, lastHeart, _ := s.Snapshot()
				checkDeadSide(e, "server", cl, lastHeart, I, T)
			}
			return
		}
		_, ccl, _, cHeart, cOpen := cli.Snapshot()
		if len(ccl) > 0 && ccl[0].At < faultAt && 8*(p.C("lat_us")+p.C("jit_us"))*1000 >= int64(T) {
			// On a link this slow a healthy heartbeat round can exceed pingTimeout (during an upgrade the
			// ping queued on long-polling needs four one-way trips of up to 300 ms to arrive, the pong one
			// more): a time-out before the fault is the configuration's doing. Nothing to measure.
			e.Probe("closed-before-fault-slow-link")
			return
		}
		if len(ccl) > 0 && ccl[0].At < faultAt {
			e.Violate("C14/closed-before-fault", "client", "client closed (%s) at t=%d before the black hole at t=%d", ccl[0].Reason, ccl[0].At, faultAt)
			return
		}
		if cOpen <= faultAt {
			e.NonTrivial()
		}
		checkDeadSide(e, "client", ccl, cHeart, I, T)
		for _, s := range es.Sides() {
			_, cl, _, lastHeart, _ := s.Snapshot()
			checkDeadSide(e, "server", cl, lastHeart, I, T)
		}
		e.Sample = map[string]any{"mode": "dead", "transport": world.Transports(p.C("tr")), "ping_interval": I.String(), "ping_timeout": T.String(),
			"blackhole_at_ns": faultAt, "dir": p.Faults[0].Dir, "client_close": ccl, "fixed": p.CfgS["fixed"]}
		e.Shape(fmt.Sprintf("tr%d dir%s", p.C("tr"), p.Faults[0].Dir))
		return
	}

	// live
	if dialErr != nil || cli == nil {
		e.Violate("C14/live-dial-failed", "client", "dial failed on a healthy network: %v", dialErr)
		return
	}
	_, ccl, cerrs, _, cOpen := cli.Snapshot()
	rounds := (p.Horizon - cOpen) / int64(I)
	e.Check()
	if len(ccl) > 0 {
		e.Violate("C14/live-peer-closed", "client:"+string(ccl[0].Reason), "client side closed a healthy connection at t=%d (reason %q, err %q) after %d heartbeat periods; errors=%v",
			ccl[0].At, ccl[0].Reason, ccl[0].Err, (ccl[0].At-cOpen)/int64(I), cerrs)
	}
	for _, s := range es.Sides() {
		_, cl, errs, _, _ := s.Snapshot()
		e.Check()
		if len(cl) > 0 {
			e.Violate("C14/live-peer-closed", "server:"+string(cl[0].Reason), "server side closed a healthy connection at t=%d (reason %q, err %q); errors=%v", cl[0].At, cl[0].Reason, cl[0].Err, errs)
		}
	}
	if len(es.Sides()) != 1 {
		e.Violate("C14/live-session-count", "server", "expected exactly one server session, got %d", len(es.Sides()))
	}
	if rounds >= 20 {
		e.NonTrivial()
	}
	e.Sample = map[string]any{"mode": "live", "transport": world.Transports(p.C("tr")), "ping_interval": I.String(), "ping_timeout": T.String(), "heartbeat_rounds": rounds, "messages": len(p.Ops)}
	e.Shape(fmt.Sprintf("live tr%d", p.C("tr")))
}

func checkDeadSide(e *sim.Env, side string, cl []world.EIOClose, lastHeart int64, I, T time.Duration) {
	e.Check()
	bound := lastHeart + int64(I+T)
	if len(cl) == 0 {
		e.Violate("C14/dead-peer-undetected", side, "%s never reported a close; last heartbeat received at t=%d, bound t=%d, now t=%d", side, lastHeart, bound, e.Now())
		return
	}
	if len(cl) > 1 {
		e.Violate("C14/close-reported-twice", side, "%s OnClose ran %d times: %v", side, len(cl), cl)
	}
	c := cl[0]
	if !pingTimeoutReasons[c.Reason] {
		e.Violate("C14/wrong-reason", side+":"+string(c.Reason), "%s closed with reason %q (err %q)", side, c.Reason, c.Err)
	}
	slack := e.StallsOverlapping(lastHeart, c.At) + int64(time.Millisecond)
	if c.At > bound+slack {
		e.Violate("C14/late-detection", side, "%s reported the dead peer at t=%d (%s): %v after the bound lastHeartbeat(%d)+pingInterval+pingTimeout=%d (+%v stall slack)",
			side, c.At, c.Reason, time.Duration(c.At-bound-slack), lastHeart, bound, time.Duration(slack))
	}
}
