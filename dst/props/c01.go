package props

import (
	"encoding/base64"
	"fmt"
	"sort"
	"strings"
	"sync"
	"time"

	sio "github.com/karagenc/socket.io-go"
	"github.com/karagenc/socket.io-go/parser"
	jsonparser "github.com/karagenc/socket.io-go/parser/json"
	"github.com/karagenc/socket.io-go/parser/json/serializer/stdjson"

	"verif/dst/sim"
	"verif/dst/world"
)

// C01 — every event emitted on a connected socket reaches the peer exactly once, intact.
// Fault-free mode by construction: latency, jitter, chunking and yield stalls only.

func init() {
	Register(&Property{
		ID: "C01", Title: "Every event emitted on a connected socket reaches the peer exactly once, intact",
		Level: "exploration",
		Modes: []Mode{{Name: "traffic", Weight: 1}},
		Gen:   genC01, Run: runC01,
		QuickRuns: 3000, ThoroughRuns: 60000,
		Rule: "plan = (transport, recovery on/off, MaxBufferSize, 1..3 clients, per-name argument shape, emitter tasks with timed emissions incl. size targets at 0/1/125/126/32767..32769/65535/65536/limit-1/limit, network latency/jitter/chunking, stall parameters) from VERIF_SEED; " +
			"non-trivial = at least 5 emissions in each direction were checked and at least two emitter tasks overlapped in time; distinct = distinct history digest among those",
		Assumptions: []string{
			"fault-free: no connection is cut; ping and upgrade time-outs are configured far above anything the run can take (they are configuration, owned by C14/C07), so a disconnect in this mode is itself a violation",
			"arguments are built fresh for every emission (aliasing over time belongs to C09)",
			"size targets are computed with the library's own encoder on a fresh copy, as encoded on the transport in use (base64 on polling)",
		},
		Real: commonReal, Stub: commonStub,
	})
}

var c01Sizes = []int64{0, 0, 0, 0, 1, 125, 126, 1000, 32767, 32768, 32769, 65535, 65536, -1, -2} // -1: limit, -2: limit-1

func genC01(p *sim.Plan, r *sim.Rand, tier string) {
	world.DrawNet(p, r)
	p.Set("tr", int64(r.Intn(3)))
	p.SetB("recovery", r.Bool(0.4))
	p.Set("maxbuf", []int64{4096, 102400, 0}[r.Intn(3)])
	nc := r.Range(1, 3)
	p.Set("clients", int64(nc))
	p.Stall = DrawStall(r, 1_000_000_000)
	// bind each event name to one shape
	for i := range EventNames {
		p.Set(fmt.Sprintf("shape%d", i), int64(r.Intn(len(Shapes))))
	}
	tasks := r.Range(1, 8)
	span := int64(r.LogDur(5*time.Millisecond, 3*time.Second))
	id := int64(0)
	big := 0
	for t := 0; t < tasks; t++ {
		side := int64(r.Intn(2)) // 0: client emits, 1: server emits
		cl := int64(r.Intn(nc))
		n := r.Range(1, 25)
		at := r.I64n(span/2 + 1)
		for k := 0; k < n; k++ {
			id++
			size := c01Sizes[r.Intn(len(c01Sizes))]
			if size != 0 && size != 1 && size != 125 && size != 126 && size != 1000 {
				big++
				if big > 12 {
					size = 0
				}
			}
			p.Ops = append(p.Ops, sim.Op{At: at, Actor: t, Kind: "emit", I: []int64{id, side, cl, int64(r.Intn(len(EventNames))), size}})
			if r.Bool(0.5) {
				at += int64(r.LogDur(1, time.Duration(span/int64(n)+1)))
			}
		}
	}
	p.Horizon = span + int64(20*time.Second)
}

var refParser = jsonparser.NewCreator(0, stdjson.New())

// encodedSize measures an emission as it travels on the transport: the largest
// WebSocket message, or the whole polling batch of its frames.
func encodedSize(name, nsp string, args []any, polling bool) int {
	v := append([]any{name}, args...)
	h := parser.PacketHeader{Type: parser.PacketTypeEvent, Namespace: nsp}
	bufs, err := refParser().Encode(&h, &v)
	if err != nil || len(bufs) == 0 {
		return -1
	}
	if polling {
		total := 1 + len(bufs[0])
		for _, b := range bufs[1:] {
			total += 1 + 1 + base64.StdEncoding.EncodedLen(len(b))
		}
		return total
	}
	m := 1 + len(bufs[0])
	for _, b := range bufs[1:] {
		if len(b) > m {
			m = len(b)
		}
	}
	return m
}

type c01Emission struct {
	id       int64
	side     int64
	client   int64
	name     string
	shape    *Shape
	want     string
	at       int64
	size     int
	skipped  string
	returned bool
}

type c01Delivery struct {
	id     int64
	side   int64 // side that received: 0 = server handler, 1 = client handler
	client int64
	name   string // the name the handler was registered for
	got    string
	at     int64
}

func runC01(e *sim.Env) {
	p := e.Plan
	nc := int(p.C("clients"))
	limit := p.C("maxbuf")
	effLimit := limit
	if effLimit == 0 {
		effLimit = 1_000_000
	}
	w := world.New(e, world.NetConfigFromPlan(p))
	reg := w.NewSrvReg()

	var mu sync.Mutex
	var deliveries []c01Delivery
	shapeOf := func(nameIdx int) *Shape { return &Shapes[p.C(fmt.Sprintf("shape%d", nameIdx))] }
	registerAll := func(sock interface {
		OnEvent(string, any)
	}, side, client int64) {
		for i, name := range EventNames {
			name := name
			sh := shapeOf(i)
			sock.OnEvent(name, sh.Handler(func(id int64, args []any) {
				now := e.Now()
				mu.Lock()
				deliveries = append(deliveries, c01Delivery{id: id, side: side, client: client, name: name, got: CanonArgs(args), at: now})
				mu.Unlock()
				e.Log(int(300+client), "deliver", "id=%d on %q side=%d", id, name, side)
			}))
		}
	}

	srvRegistered := 0 // registration itself takes fake time when a stall lands in it; traffic starts afterwards
	reg.OnNew = func(s *world.SrvSock) {
		registerAll(s.Socket, 0, -1)
		mu.Lock()
		srvRegistered++
		mu.Unlock()
	}
	// Time-outs are configuration, not faults: with 150 ms latency and a 4 KiB maxPayload a burst is
	// dozens of sequential POSTs. They are set far above anything this world can take, so that no
	// configured time-out (upgrade, ping) can end the connection; C07 / C14 own those.
	w.StartServer(world.ServerOpts{Recovery: p.B("recovery"), MaxBufferSize: limit, UpgradeTimeout: 20 * time.Minute, PingInterval: 25 * time.Second, PingTimeout: 20 * time.Minute,
		Configure: func(s *sio.Server) { reg.Watch(s.Of("/")) }})

	clients := make([]*world.SioClient, nc)
	for i := 0; i < nc; i++ {
		c := w.NewSioClient(i, "/", world.ClientOpts{Transports: world.Transports(p.C("tr")), NoReconnection: true, UpgradeTimeout: 20 * time.Minute}, nil)
		registerAll(c.Socket, 1, int64(i))
		clients[i] = c
		// an application that emits as soon as it is connected: delivery is not asserted (the server
		// may not have registered handlers yet) but it must never cost the connection
		c.Socket.OnConnect(func() { c.Socket.Emit("early", i) })
		c.Socket.Connect()
	}
	// Traffic starts once every client is connected and every server socket has its handlers:
	// the server runs connection handlers on their own goroutine after the CONNECT reply, so an
	// event sent immediately on connect can precede registration (nothing is promised to it).
	ok := world.WaitUntil(30*time.Second, func() bool {
		for _, c := range clients {
			if !c.Socket.Connected() {
				return false
			}
		}
		mu.Lock()
		defer mu.Unlock()
		return srvRegistered == nc
	})
	if !ok {
		e.Violate("C01/connect-failed", "setup", "clients did not connect within 30 s on a fault-free network")
		return
	}
	srvSock := make([]sio.ServerSocket, nc)
	for i, c := range clients {
		if s := reg.ByID(c.Socket.ID(), "/"); s != nil {
			srvSock[i] = s.Socket
		} else {
			e.Violate("C01/connect-failed", "setup", "no server socket with the id %q of client %d", c.Socket.ID(), i)
			return
		}
	}
	base := e.Now()

	ems := map[int64]*c01Emission{}
	byActor := map[int][]sim.Op{}
	for _, op := range p.Ops {
		byActor[op.Actor] = append(byActor[op.Actor], op)
	}
	actors := make([]int, 0, len(byActor))
	for a := range byActor {
		actors = append(actors, a)
	}
	sort.Ints(actors)
	polling := p.C("tr") == 0
	for _, a := range actors {
		ops := byActor[a]
		a := a
		e.Go(func() {
			for _, op := range ops {
				e.SleepUntil(base + op.At)
				id, side, cl, ni, sz := op.Int(0), op.Int(1), op.Int(2), int(op.Int(3)), op.Int(4)
				sh := shapeOf(ni)
				name := EventNames[ni]
				em := &c01Emission{id: id, side: side, client: cl, name: name, shape: sh}
				rr := sim.NewRand(p.Seed).Fork("emit").ForkN(uint64(id))
				pad := 0
				if sz != 0 {
					target := sz
					if sz == -1 {
						target = effLimit
					} else if sz == -2 {
						target = effLimit - 1
					}
					if target > effLimit {
						target = effLimit
					}
					// during an upgrade the transport is not settled: size for the stricter of the two forms
					pol := polling || (p.C("tr") == 2)
					base0 := encodedSize(name, "/", sh.Build(rr.Fork("a"), id, 0), pol)
					if base0 >= 0 && int64(base0) <= target {
						pad = int(target) - base0
						if sh.PadBin && pol {
							pad = pad * 3 / 4 // base64 expansion; corrected below
						}
						for it := 0; it < 6; it++ {
							got := encodedSize(name, "/", sh.Build(rr.Fork("a"), id, pad), pol)
							if int64(got) == target || pad == 0 {
								break
							}
							if int64(got) > target {
								pad--
							} else if sh.PadBin && pol && int64(got)+4 <= target {
								pad += int((target - int64(got)) * 3 / 4)
							} else {
								break
							}
						}
						for pad > 0 && int64(encodedSize(name, "/", sh.Build(rr.Fork("a"), id, pad), pol)) > target {
							pad--
						}
					}
				}
				args := sh.Build(rr.Fork("a"), id, pad)
				em.want = CanonArgs(sh.Build(rr.Fork("a"), id, pad))
				em.size = encodedSize(name, "/", sh.Build(rr.Fork("a"), id, pad), polling)
				em.at = e.Now()
				mu.Lock()
				ems[id] = em
				mu.Unlock()
				iid, _ := e.Invoke(a, fmt.Sprintf("emit id=%d side=%d c%d %q shape=%s size=%d", id, side, cl, name, sh.Name, em.size))
				if side == 0 {
					clients[cl].Socket.Emit(name, args...)
				} else {
					srvSock[cl].Emit(name, args...)
				}
				em.returned = true
				e.Return(a, iid, "emit")
			}
		})
	}

	time.Sleep(time.Duration(p.Horizon))
	e.StopStalls()
	time.Sleep(5 * time.Second)

	// ---- oracle
	if pend := e.Pending(); len(pend) > 0 {
		e.Violate("C01/emit-never-returned", "api", "Emit calls still blocked %v after the last emission: %v", 25*time.Second, pend)
	}
	disconnected := false
	for _, c := range clients {
		for _, ev := range c.Events() {
			if ev.Kind == "disconnect" || ev.Kind == "close" || ev.Kind == "connect_error" {
				disconnected = true
				cause := inflightAt(ems, ev.At)
				e.Violate("C01/unexpected-disconnect", discSig(p, ev.Reason, cause), "client %d saw %s (%s) at t=%d on a fault-free network; emissions in flight: %s", c.Idx, ev.Kind, ev.Reason, ev.At, cause)
				break
			}
		}
	}
	for _, s := range reg.All() {
		for _, ev := range s.Events() {
			if ev.Kind == "disconnect" {
				disconnected = true
				e.Violate("C01/unexpected-disconnect", discSig(p, ev.Reason, inflightAt(ems, ev.At)), "server socket %s saw disconnect (%s) at t=%d on a fault-free network; emissions in flight: %s", ev.ID, ev.Reason, ev.At, inflightAt(ems, ev.At))
				break
			}
		}
	}
	byID := map[int64][]c01Delivery{}
	mu.Lock()
	for _, d := range deliveries {
		byID[d.id] = append(byID[d.id], d)
	}
	mu.Unlock()
	ids := make([]int64, 0, len(ems))
	for id := range ems {
		ids = append(ids, id)
	}
	sort.Slice(ids, func(i, j int) bool { return ids[i] < ids[j] })
	checked := [2]int{}
	for _, id := range ids {
		em := ems[id]
		ds := byID[id]
		e.Check()
		checked[em.side]++
		dir := "c2s"
		if em.side == 1 {
			dir = "s2c"
		}
		sig := fmt.Sprintf("%s shape=%s", dir, em.shape.Name)
		if p.B("recovery") && em.side == 1 && strings.HasSuffix(em.want, "\"") {
			sig = "s2c recovery trailing-string-argument"
		}
		if em.size > 32768 && em.side == 1 && p.C("tr") != 0 {
			sig = "s2c websocket message above 32 KiB"
		}
		if strings.HasSuffix(em.name, "\\") {
			sig = "event name ending in a backslash"
		}
		switch {
		case len(ds) == 0:
			if disconnected {
				continue // reported above with its cause
			}
			e.Violate("C01/lost", sig, "emission id=%d (%s, event %q, shape %s, %d bytes on the wire, emitted t=%d) never reached a handler", id, dir, em.name, em.shape.Name, em.size, em.at)
		case len(ds) > 1:
			e.Violate("C01/duplicate", sig, "emission id=%d reached handlers %d times: %+v", id, len(ds), ds)
		default:
			d := ds[0]
			if d.side != em.side {
				e.Violate("C01/wrong-side", sig, "emission id=%d from side %d was delivered on side %d", id, em.side, d.side)
			}
			if em.side == 1 && d.client != em.client {
				e.Violate("C01/wrong-socket", sig, "emission id=%d for client %d was delivered to client %d", id, em.client, d.client)
			}
			if d.name != em.name {
				e.Violate("C01/wrong-handler", sig, "emission id=%d of event %q ran the handler registered for %q", id, em.name, d.name)
			}
			if d.got != em.want {
				e.Violate("C01/altered", sig, "emission id=%d (%q, shape %s): arguments differ\n sent: %.300s\n got:  %.300s", id, em.name, em.shape.Name, em.want, d.got)
			}
		}
	}
	for id, ds := range byID {
		if _, ok := ems[id]; !ok {
			e.Violate("C01/phantom", "unknown-id", "handler entered with unknown emission id %d: %+v", id, ds)
		}
	}
	if checked[0] >= 5 && checked[1] >= 5 && len(actors) >= 2 {
		e.NonTrivial()
	}
	e.Shape(fmt.Sprintf("tr%d rec%v n%d", p.C("tr"), p.B("recovery"), len(ems)))
	e.Sample = map[string]any{"transport": world.Transports(p.C("tr")), "recovery": p.B("recovery"), "max_buffer": limit, "clients": nc,
		"emitter_tasks": len(actors), "emissions": len(ems), "c2s": checked[0], "s2c": checked[1], "deliveries": len(deliveries)}
}

func inflightAt(ems map[int64]*c01Emission, t int64) string {
	var out []string
	for _, em := range ems {
		if em.at <= t && em.at > t-int64(500*time.Millisecond) {
			out = append(out, fmt.Sprintf("id=%d side=%d %q %s %dB", em.id, em.side, em.name, em.shape.Name, em.size))
		}
	}
	sort.Strings(out)
	if len(out) > 6 {
		out = out[:6]
	}
	return strings.Join(out, "; ")
}

func discSig(p *sim.Plan, reason, inflight string) string {
	if strings.Contains(inflight, "\\\\\" ") {
		return "event name ending in a backslash"
	}
	return fmt.Sprintf("tr=%d reason=%s", p.C("tr"), reason)
}
