package props

import (
	"fmt"
	"os"
	"sort"
	"strings"
	"sync"
	"time"

	sio "github.com/karagenc/socket.io-go"

	"verif/dst/sim"
	"verif/dst/world"
)

// C05 — namespaces multiplexed on one connection are isolated from each other.
//
// One world = a server with 2..5 namespaces out of a pool of look-alike names, 1..3 managers each with
// sockets in 1..4 namespaces on ONE connection (one of them possibly a namespace the server does not
// have), and a program of connect / emit / ack / broadcast / room broadcast / disconnect operations
// over them; plus a protocol-level peer that sends packets for namespaces it has not joined.

var c05Pool = []string{"/", "/a", "/ab", "/a/b", "/A", "/chat", "/chat/", "/ünï", "/a-b"}

func init() {
	Register(&Property{
		ID: "C05", Title: "Namespaces multiplexed on one connection are isolated from each other",
		Level: "exploration",
		Modes: []Mode{{Name: "mux", Weight: 3}, {Name: "raw", Weight: 1}},
		Gen:   genC05, Run: runC05,
		QuickRuns: 8000, ThoroughRuns: 240000,
		Rule: "[also: a socket disconnected by the application while its manager is still opening (optionally on a latency-free network with ONE deliberate stall of 4-12 ms at a drawn yield point of client_socket.go), a sibling connecting right after that Disconnect, and a connected socket disconnected at the moment the refusal of an unknown namespace arrives] plan = (2..5 namespaces out of {/, /a, /ab, /a/b, /A, /chat, /chat/, /ünï, /a-b}, 1..3 managers with sockets in 1..4 of them on one connection each, optionally a namespace the server does not have, connect order and instants, a program of 10..60 operations out of {client emit, client emit with ack, server emit, server emit with ack, namespace broadcast, room broadcast, client Disconnect, server Disconnect} at drawn instants, transport, network and stall parameters; raw mode: a protocol-level peer that has joined a drawn subset sends EVENT / ACK / DISCONNECT / BINARY_EVENT packets for a namespace it has not joined, existing or not, in '', '/' and '/,' spellings) from VERIF_SEED; " +
			"non-trivial = at least two namespaces shared one connection while traffic of both was in flight, or the raw packet was sent; distinct = distinct history digest among those",
		Assumptions: []string{
			"a client does not send into a namespace (events, or the acknowledgement of a server event) within 300 ms before the server disconnects that namespace: such a packet is addressed to a namespace the connection is no longer attached to, and the statement itself requires the connection to be closed then",
			"completeness of broadcasts is C04's subject; here every delivery is checked for the namespace and the socket it was meant for",
		},
		Real: commonReal, Stub: commonStub,
	})
}

func genC05(p *sim.Plan, r *sim.Rand, tier string) {
	world.DrawNet(p, r)
	if p.C("lat_us") > 2000 {
		p.Set("lat_us", 2000)
		p.Set("jit_us", 500)
	}
	p.Set("tr", int64(r.Intn(3)))
	p.Stall = DrawStall(r, 300_000_000, "server_conn.go", "client_manager.go", "namespace.go", "store.go", "client_socket.go", "server_socket.go")
	// the server's namespaces
	perm := r.Perm(len(c05Pool))
	nn := r.Range(2, 5)
	var names []string
	for _, i := range perm[:nn] {
		names = append(names, c05Pool[i])
	}
	p.CfgS["namespaces"] = strings.Join(names, " ")
	if p.Mode == "raw" {
		// joined subset, target namespace (existing-but-unjoined or unknown), packet kind, spelling
		p.Set("raw_join", int64(r.Intn(1<<uint(nn))))
		p.Set("raw_target", int64(r.Intn(nn+1))) // nn = a namespace the server does not have
		p.Set("raw_kind", int64(r.Intn(5)))
		p.Set("raw_ws", int64(r.Intn(2)))
		p.Horizon = int64(10 * time.Second)
		return
	}
	nm := r.Range(1, 3)
	p.Set("managers", int64(nm))
	type sk struct{ m, n int }
	var socks []sk
	discAt := map[sk]int64{}
	for m := 0; m < nm; m++ {
		k := r.Range(1, minInt(4, nn))
		pm := r.Perm(nn)
		if k >= 2 && r.Bool(0.2) {
			// A connected socket is disconnected by the application at the moment the refusal of an
			// unknown namespace arrives (the refusal makes the manager close the connection if no socket
			// is active any more), and a sibling connects right afterwards: whatever Disconnect still
			// has to send belongs to the connection that is gone.
			t0 := r.I64n(10_000_000)
			t1 := t0 + 30_000_000 + r.I64n(20_000_000)
			a, b := pm[0], pm[1]
			socks = append(socks, sk{m, a}, sk{m, b})
			dat := t1 + r.I64n(4*(p.C("lat_us")*1000+500_000))
			discAt[sk{m, a}] = -dat
			p.Ops = append(p.Ops,
				sim.Op{At: t0, Actor: m, Kind: "connect", I: []int64{int64(a)}},
				sim.Op{At: t1, Actor: m, Kind: "connect", I: []int64{-1}},
				sim.Op{At: dat, Actor: m, Kind: "c_disc", I: []int64{int64(a), 0}},
				sim.Op{At: dat + r.I64n(12_000_000), Actor: m, Kind: "connect", I: []int64{int64(b)}})
			p.Stall = DrawStall(r, 300_000_000)
			p.Stall.Focus = []string{"client_socket.go"}
			p.Stall.SitePct = 100
			p.Stall.RatePPM = []int{30000, 100000, 200000}[r.Intn(3)]
			p.Stall.MinNs = 3_000_000
			p.Stall.MaxNs = []int64{10_000_000, 30_000_000}[r.Intn(2)]
			continue
		}
		early := -1
		if k >= 2 && r.Bool(0.5) {
			// one socket is disconnected by the application while the manager is still opening its
			// connection (or the CONNECT packets are on their way): its siblings connect all the same
			early = 0
		}
		// (on a network without latency the whole exchange takes no time: only the stalls decide
		// what overlaps with what)
		tightEarly := early >= 0 && r.Bool(0.3)
		if tightEarly {
			p.Set("lat_us", 0)
			p.Set("jit_us", 0)
		}
		var dat int64
		for i, n := range pm[:k] {
			socks = append(socks, sk{m, n})
			at := r.I64n(40_000_000)
			if early >= 0 && i > 0 && (tightEarly || r.Bool(0.6)) {
				// a sibling connects right after that Disconnect (which closed the connection, if the
				// socket was the only active one): the next attempt against the end of the previous one
				at = dat + r.I64n(3_000_000)
			}
			p.Ops = append(p.Ops, sim.Op{At: at, Actor: m, Kind: "connect", I: []int64{int64(n)}})
			if i == early {
				dat = at + r.I64n(8*(p.C("lat_us")*1000+500_000))
				if tightEarly {
					dat = at + r.I64n(2_000_000)
				}
				discAt[sk{m, n}] = -dat
				p.Ops = append(p.Ops, sim.Op{At: dat, Actor: m, Kind: "c_disc", I: []int64{int64(n), 0}})
			}
		}
		if early >= 0 && r.Bool(0.8) {
			// long stalls in the client's connection management
			p.Stall = DrawStall(r, 300_000_000)
			p.Stall.Focus = []string{"client_manager.go", "client_socket.go", "client_manager_conn.go"}
			p.Stall.SitePct = 100
			p.Stall.RatePPM = []int{10000, 30000, 100000}[r.Intn(3)]
			p.Stall.MinNs = 2_000_000
			p.Stall.MaxNs = []int64{8_000_000, 20_000_000, 50_000_000}[r.Intn(3)]
		}
		if tightEarly {
			// one stall of a few milliseconds somewhere in the socket's own code, nothing else
			p.Stall = sim.StallCfg{Seed: r.U64(), BudgetNs: 300_000_000}
			p.Stall.OneShot.Prefix = "client_socket.go:"
			p.Stall.OneShot.Nth = r.Intn(36)
			p.Stall.OneShot.Ns = 4_000_000 + r.I64n(8_000_000)
		}
		if r.Bool(0.3) {
			p.Ops = append(p.Ops, sim.Op{At: r.I64n(40_000_000), Actor: m, Kind: "connect", I: []int64{-1}}) // unknown namespace
			if r.Bool(0.5) {
				// the refusal makes the manager look at its sockets (close if none is active) while the
				// others are connecting: long stalls on the client's manager code
				p.Stall = DrawStall(r, 300_000_000)
				p.Stall.Focus = []string{"client_manager.go", "client_socket.go", "client_manager_conn.go"}
				p.Stall.SitePct = 100
				p.Stall.RatePPM = []int{50000, 150000, 300000}[r.Intn(3)]
				p.Stall.MaxNs = []int64{5_000_000, 20_000_000, 50_000_000}[r.Intn(3)]
			}
		}
	}
	if p.Stall.OneShot.Ns > 0 {
		// (creating a socket passes two yield points of that file: skip them)
		created := map[[2]int64]bool{}
		for _, op := range p.Ops {
			if op.Kind == "connect" {
				created[[2]int64{int64(op.Actor), op.Int(0)}] = true
			}
		}
		p.Stall.OneShot.Nth += 2 * len(created)
	}
	span := int64(r.LogDur(50*time.Millisecond, 2*time.Second))
	nops := r.Range(10, 60)
	id := int64(1)
	for i := 0; i < nops; i++ {
		s := socks[r.Intn(len(socks))]
		at := 60_000_000 + r.I64n(span)
		if r.Bool(0.3) {
			at = 60_000_000 + (r.I64n(span)/5_000_000)*5_000_000 // coinciding instants
		}
		kind := []string{"c_emit", "c_ack", "s_emit", "s_ack", "bcast", "room", "c_disc", "s_disc", "c_bin", "s_bin", "bcast_bin"}[r.Weighted([]int{5, 4, 5, 4, 3, 3, 1, 1, 3, 4, 2})]
		if (kind == "c_disc" || kind == "s_disc") && discAt[s] != 0 {
			continue
		}
		if kind == "c_disc" || kind == "s_disc" {
			discAt[s] = at
			if kind == "c_disc" {
				discAt[s] = -at
			}
		}
		p.Ops = append(p.Ops, sim.Op{At: at, Actor: s.m, Kind: kind, I: []int64{int64(s.n), id}})
		id++
	}
	// no client emit into a namespace shortly before (or after) the server disconnects it
	var ops []sim.Op
	for _, op := range p.Ops {
		// (an acknowledged server emit makes the client send an ACK packet: the same thing)
		if op.Kind == "c_emit" || op.Kind == "c_ack" || op.Kind == "s_ack" || op.Kind == "c_bin" {
			if d := discAt[sk{op.Actor, int(op.Int(0))}]; d > 0 && op.At > d-300_000_000 {
				continue
			}
		}
		ops = append(ops, op)
	}
	p.Ops = ops
	p.Horizon = 60_000_000 + span + int64(3*time.Second)
	if os.Getenv("DST_C05_RECONN") != "" && p.C("tr") == 1 && r.Bool(0.5) {
		// (Opt-in, not part of the registered check: see DESIGN.md §15. This family found defects of
		// the client's reconnection faster than they could be repaired in the time that was left.)
		// (WebSocket only: a cut ends the connection for both sides at once. On long-polling net/http
		// absorbs a cut by redialling, and what travelled in the cut response - a CONNECT reply, an
		// event - is lost on a session that lives on: Engine.IO does not acknowledge poll payloads.)
		// Reconnecting managers: the connection of one or two of them is cut in the middle of the
		// traffic. Every namespace of that connection goes down and comes back with the next connection
		// (what was in flight is lost, that is no concern here); the namespaces of the other managers
		// are left alone, and at the end everything that nobody disconnected works.
		p.SetB("reconn", true)
		for i := 0; i < r.Range(1, 2); i++ {
			at := 70_000_000 + r.I64n(span)
			p.Faults = append(p.Faults, sim.Fault{At: at, Kind: "cut", Target: fmt.Sprintf("c%d*", r.Intn(nm))})
		}
		p.Horizon += int64(3 * time.Second)
	}
}

type c05Delivery struct {
	side       string // "srv" or "cli"
	handlerNs  string
	handlerMgr int // client side: the manager of the socket whose handler ran; server side: the manager whose socket it is (by id)
	payloadNs  string
	payloadMgr int
	id         int
	ack        bool // this is an acknowledgement callback
	at         int64
}

func runC05(e *sim.Env) {
	p := e.Plan
	if p.Mode == "raw" {
		runC05Raw(e)
		return
	}
	w := world.New(e, world.NetConfigFromPlan(p))
	names := strings.Fields(p.CfgS["namespaces"])
	far := 20 * time.Minute
	var mu sync.Mutex
	var dels []c05Delivery
	rec := func(d c05Delivery) {
		d.at = e.Now()
		mu.Lock()
		dels = append(dels, d)
		mu.Unlock()
	}
	// binary attachments name their namespace and event too: frames of two namespaces that get mixed on
	// the shared connection show as a foreign attachment (or as a parse error that ends the connection)
	blobFor := func(ns string, id int) sio.Binary {
		return sio.Binary(fmt.Sprintf("blob|%s|%d|%s", ns, id, strings.Repeat("x", id%40)))
	}
	checkBlob := func(side, handlerNs, ns string, id int, blob sio.Binary) {
		if string(blob) != string(blobFor(ns, id)) {
			e.Violate("C05/cross-namespace-delivery", "attachment", "%s-side handler of %q: event #%d of %q arrived with the attachment %.60q", side, handlerNs, id, ns, blob)
		}
	}
	// server sockets by (namespace, socket id)
	srvSock := map[string]sio.ServerSocket{}
	connHandlerAt := map[string]int64{}
	srv := w.StartServer(world.ServerOpts{PingInterval: 25 * time.Second, PingTimeout: far, UpgradeTimeout: far, Configure: func(s *sio.Server) {
		for _, name := range names {
			name := name
			n := s.Of(name)
			n.OnConnection(func(sock sio.ServerSocket) {
				key := name + "|" + string(sock.ID())
				mu.Lock()
				srvSock[key] = sock
				connHandlerAt[key] = e.Now()
				mu.Unlock()
				sock.Join("r")
				sock.OnEvent("ev", func(ns string, m, id int) {
					rec(c05Delivery{side: "srv", handlerNs: n.Name(), handlerMgr: -1, payloadNs: ns, payloadMgr: m, id: id})
				})
				sock.OnEvent("evack", func(ns string, m, id int, ack func(string, int)) {
					rec(c05Delivery{side: "srv", handlerNs: n.Name(), handlerMgr: -1, payloadNs: ns, payloadMgr: m, id: id})
					ack(n.Name(), id)
				})
				sock.OnEvent("evb", func(ns string, m, id int, blob sio.Binary) {
					rec(c05Delivery{side: "srv", handlerNs: n.Name(), handlerMgr: -1, payloadNs: ns, payloadMgr: m, id: id})
					checkBlob("srv", n.Name(), ns, id, blob)
				})
			})
		}
	}})
	_ = srv
	nm := int(p.C("managers"))
	trs := world.Transports(p.C("tr"))
	type csock struct {
		m      int
		ns     string
		c      *world.SioClient
		known  bool
		discBy string // "", "client", "server"
		discAt int64
	}
	socks := map[string]*csock{}
	key := func(m int, ns string) string { return fmt.Sprintf("%d|%s", m, ns) }
	mgrs := make([]*sio.Manager, nm)
	for m := 0; m < nm; m++ {
		o := world.ClientOpts{Transports: trs, UpgradeTimeout: far, NoReconnection: true}
		if p.B("reconn") {
			d, dm := 50*time.Millisecond, 200*time.Millisecond
			o.NoReconnection, o.ReconnectionDelay, o.ReconnectionDelayMax = false, &d, &dm
		}
		mgrs[m] = w.NewManager(m, o)
	}
	w.Net.Schedule(p.Faults)
	get := func(m int, ns string, known bool) *csock {
		k := key(m, ns)
		if s := socks[k]; s != nil {
			return s
		}
		c := w.AttachSocket(&world.SioClient{W: w, Idx: m, Manager: mgrs[m], Nsp: ns}, nil, false)
		s := &csock{m: m, ns: ns, c: c, known: known}
		c.Socket.OnEvent("ev", func(pns string, pm, id int) {
			rec(c05Delivery{side: "cli", handlerNs: ns, handlerMgr: m, payloadNs: pns, payloadMgr: pm, id: id})
		})
		c.Socket.OnEvent("evack", func(pns string, pm, id int, ack func(string, int)) {
			rec(c05Delivery{side: "cli", handlerNs: ns, handlerMgr: m, payloadNs: pns, payloadMgr: pm, id: id})
			ack(ns, id)
		})
		c.Socket.OnEvent("evb", func(pns string, pm, id int, blob sio.Binary) {
			rec(c05Delivery{side: "cli", handlerNs: ns, handlerMgr: m, payloadNs: pns, payloadMgr: pm, id: id})
			checkBlob("cli", ns, pns, id, blob)
		})
		socks[k] = s
		return s
	}
	// all sockets are created up front, by the root task and with no harness mutex held (a task that
	// sleeps in a yield stall while it holds a real mutex would block the fake clock for good)
	for _, op := range p.Ops {
		if op.Kind == "connect" {
			if op.Int(0) >= 0 {
				get(op.Actor, names[op.Int(0)], true)
			} else {
				get(op.Actor, "/nope", false)
			}
		}
	}
	base := e.Now()
	sigBase := fmt.Sprintf("tr=%d", p.C("tr"))
	inflight := map[int]map[string]bool{} // manager -> namespaces with traffic
	var imu sync.Mutex
	touch := func(m int, ns string) {
		imu.Lock()
		if inflight[m] == nil {
			inflight[m] = map[string]bool{}
		}
		inflight[m][ns] = true
		imu.Unlock()
	}
	srvOf := func(s *csock) sio.ServerSocket {
		id := s.c.Socket.ID()
		if id == "" {
			return nil
		}
		mu.Lock()
		defer mu.Unlock()
		return srvSock[s.ns+"|"+string(id)]
	}
	for _, op := range p.Ops {
		op := op
		e.Go(func() {
			e.SleepUntil(base + op.At)
			m := op.Actor
			if op.Kind == "connect" {
				ns := "/nope"
				if op.Int(0) >= 0 {
					ns = names[op.Int(0)]
				}
				s := socks[key(m, ns)]
				iid, _ := e.Invoke(m, "connect "+ns)
				s.c.Socket.Connect()
				e.Return(m, iid, "connect")
				return
			}
			ns := names[op.Int(0)]
			id := int(op.Int(1))
			s := socks[key(m, ns)]
			if s == nil {
				return
			}
			iid, _ := e.Invoke(m, fmt.Sprintf("%s %s #%d", op.Kind, ns, id))
			defer e.Return(m, iid, op.Kind)
			switch op.Kind {
			case "c_emit":
				touch(m, ns)
				s.c.Socket.Emit("ev", ns, m, id)
			case "c_ack":
				touch(m, ns)
				s.c.Socket.Emit("evack", ns, m, id, func(ans string, aid int) {
					rec(c05Delivery{side: "cli", handlerNs: ns, handlerMgr: m, payloadNs: ans, payloadMgr: m, id: aid, ack: true})
					if aid != id {
						e.Violate("C05/ack-misrouted", sigBase, "the acknowledgement callback of emit #%d in %s (manager %d) received the acknowledgement of #%d (from %s)", id, ns, m, aid, ans)
					}
				})
			case "s_emit":
				if ss := srvOf(s); ss != nil {
					touch(m, ns)
					ss.Emit("ev", ns, m, id)
				}
			case "s_ack":
				if ss := srvOf(s); ss != nil {
					touch(m, ns)
					ss.Emit("evack", ns, m, id, func(ans string, aid int) {
						rec(c05Delivery{side: "srv", handlerNs: ns, handlerMgr: m, payloadNs: ans, payloadMgr: m, id: aid, ack: true})
						if aid != id {
							e.Violate("C05/ack-misrouted", sigBase, "the server's acknowledgement callback of emit #%d in %s received the acknowledgement of #%d (from %s)", id, ns, aid, ans)
						}
					})
				}
			case "c_bin":
				touch(m, ns)
				s.c.Socket.Emit("evb", ns, m, id, blobFor(ns, id))
			case "s_bin":
				if ss := srvOf(s); ss != nil {
					touch(m, ns)
					ss.Emit("evb", ns, m, id, blobFor(ns, id))
				}
			case "bcast_bin":
				touch(m, ns)
				srv.Of(ns).Emit("evb", ns, -1, id, blobFor(ns, id))
			case "bcast":
				touch(m, ns)
				srv.Of(ns).Emit("ev", ns, -1, id)
			case "room":
				touch(m, ns)
				srv.Of(ns).To("r").Emit("ev", ns, -1, id)
			case "c_disc":
				mu.Lock()
				s.discBy, s.discAt = "client", e.Now()
				mu.Unlock()
				s.c.Socket.Disconnect()
			case "s_disc":
				if ss := srvOf(s); ss != nil {
					mu.Lock()
					s.discBy, s.discAt = "server", e.Now()
					mu.Unlock()
					ss.Disconnect(false)
				}
			}
		})
	}
	time.Sleep(time.Duration(p.Horizon) - 2*time.Second)
	e.StopStalls()
	// ---- final probes: every socket that nobody disconnected must still work, both ways
	mu.Lock()
	var live []*csock
	var keys []string
	for k := range socks {
		keys = append(keys, k)
	}
	sort.Strings(keys)
	for _, k := range keys {
		s := socks[k]
		if s.known && s.discBy == "" {
			live = append(live, s)
		}
	}
	mu.Unlock()
	probeID := 100000
	type probe struct {
		s   *csock
		id  int
		dir string
	}
	var probes []probe
	for _, s := range live {
		s := s
		probeID++
		id1 := probeID
		probeID++
		id2 := probeID
		probes = append(probes, probe{s, id1, "c2s"}, probe{s, id2, "s2c"})
		e.Go(func() {
			s.c.Socket.Emit("ev", s.ns, s.m, id1)
			if ss := srvOf(s); ss != nil {
				ss.Emit("ev", s.ns, s.m, id2)
			}
		})
	}
	time.Sleep(2 * time.Second)

	// ---- oracle
	if pend := e.Pending(); len(pend) > 0 {
		e.Violate("C05/api-blocked", sigBase, "calls did not return: %v", pend)
	}
	mu.Lock()
	defer mu.Unlock()
	for _, d := range dels {
		e.Check()
		if d.payloadNs != d.handlerNs {
			what := "event"
			if d.ack {
				what = "acknowledgement"
			}
			e.Violate("C05/cross-namespace-delivery", fmt.Sprintf("%s %s", sigBase, what), "%s #%d of namespace %q was delivered to a %s-side handler of namespace %q", what, d.id, d.payloadNs, d.side, d.handlerNs)
		}
		if d.side == "cli" && !d.ack && d.payloadMgr >= 0 && d.payloadMgr != d.handlerMgr {
			e.Violate("C05/wrong-socket", sigBase, "event #%d emitted to the socket of manager %d in %q ran the handler of manager %d", d.id, d.payloadMgr, d.payloadNs, d.handlerMgr)
		}
	}
	got := map[int]int{}
	for _, d := range dels {
		if !d.ack {
			got[d.id]++
		}
	}
	shared := false
	imu.Lock()
	for _, nss := range inflight {
		if len(nss) >= 2 {
			shared = true
		}
	}
	imu.Unlock()
	for _, k := range keys {
		s := socks[k]
		evs := s.c.Events()
		nConn, nErr, nDisc := 0, 0, 0
		for _, ev := range evs {
			switch ev.Kind {
			case "connect":
				nConn++
			case "connect_error":
				nErr++
			case "disconnect":
				nDisc++
			}
		}
		e.Check()
		switch {
		case !s.known:
			if nConn > 0 {
				e.Violate("C05/connected-to-unknown-namespace", sigBase, "manager %d: the socket of %q, a namespace the server does not have, connected", s.m, s.ns)
			}
			if nErr != 1 && !(p.B("reconn") && nErr >= 1) {
				e.Violate("C05/connect-error-count", sigBase, "manager %d: the socket of the unknown namespace %q saw %d connect_error events, want 1", s.m, s.ns, nErr)
			}
		case s.discBy == "" && p.B("reconn"):
			// a cut takes the namespaces of its connection down, the reconnection brings them back
			cutMine := false
			for _, f := range p.Faults {
				cutMine = cutMine || f.Target == fmt.Sprintf("c%d*", s.m)
			}
			// (a socket whose CONNECT reply was still pending hears of the end of the connection too:
			// a disconnect event before its first connect event)
			endsConnected := false
			for _, ev := range evs {
				if ev.Kind == "connect" {
					endsConnected = true
				} else if ev.Kind == "disconnect" {
					endsConnected = false
				}
			}
			if (nDisc > 0 && !cutMine) || !endsConnected || !s.c.Socket.Connected() {
				e.Violate("C05/collateral-disconnect", sigBase+" reconnecting", "manager %d namespace %q was never disconnected by anybody (its connection was cut: %v), yet: connect=%d disconnect=%d connected=%v; events %v; siblings: %s", s.m, s.ns, cutMine, nConn, nDisc, s.c.Socket.Connected(), evs, c05Siblings(socks, keys, s.m))
			}
		case s.discBy == "":
			// nobody disconnected this socket: whatever happened to its siblings, it is connected and works
			if nDisc > 0 || !s.c.Socket.Connected() {
				e.Violate("C05/collateral-disconnect", sigBase, "manager %d namespace %q was never disconnected by anybody, yet: connect=%d disconnect=%d connected=%v; events %v; siblings: %s", s.m, s.ns, nConn, nDisc, s.c.Socket.Connected(), evs, c05Siblings(socks, keys, s.m))
			}
		}
	}
	for _, pr := range probes {
		e.Check()
		if got[pr.id] != 1 && pr.s.c.Socket.Connected() {
			e.Violate("C05/sibling-unusable", sigBase+" "+pr.dir, "probe #%d (%s) on manager %d namespace %q was delivered %d times although nobody disconnected that namespace; siblings: %s", pr.id, pr.dir, pr.s.m, pr.s.ns, got[pr.id], c05Siblings(socks, keys, pr.s.m))
		}
	}
	// a handler of a namespace runs only for sockets whose connection handler had run
	if shared {
		e.NonTrivial()
	}
	e.Shape(fmt.Sprintf("%s ns%d m%d", sigBase, len(names), nm))
	e.Sample = map[string]any{"namespaces": names, "managers": nm, "sockets": len(socks), "deliveries_checked": len(dels), "final_probes": len(probes)}
}

func c05Siblings[T any](socks map[string]T, keys []string, m int) string {
	var out []string
	for _, k := range keys {
		if strings.HasPrefix(k, fmt.Sprintf("%d|", m)) {
			out = append(out, k)
		}
	}
	return strings.Join(out, ",")
}

// runC05Raw: a protocol-level peer sends a packet for a namespace it has not joined.
func runC05Raw(e *sim.Env) {
	p := e.Plan
	w := world.New(e, world.NetConfigFromPlan(p))
	names := strings.Fields(p.CfgS["namespaces"])
	far := 20 * time.Minute
	var mu sync.Mutex
	var leaked []string
	hasRoot := false
	for _, n := range names {
		hasRoot = hasRoot || n == "/"
	}
	w.StartServer(world.ServerOpts{PingInterval: 25 * time.Second, PingTimeout: far, UpgradeTimeout: far, ConnectTimeout: 20 * time.Minute, Configure: func(s *sio.Server) {
		all := append([]string(nil), names...)
		if !hasRoot {
			all = append(all, "/")
		}
		for _, name := range all {
			name := name
			s.Of(name).OnConnection(func(sock sio.ServerSocket) {
				for _, evn := range []string{"ev", "evb"} {
					evn := evn
					sock.OnEvent(evn, func(args ...any) {
						mu.Lock()
						leaked = append(leaked, fmt.Sprintf("%s handler of %s: %v", evn, name, args))
						mu.Unlock()
					})
				}
			})
		}
	}})
	// a witness: a real client connected to every namespace (its server-side handlers must stay silent)
	mgr := w.NewManager(1, world.ClientOpts{Transports: []string{"websocket"}, NoReconnection: true})
	var witnesses []*world.SioClient
	for _, n := range names {
		c := w.AttachSocket(&world.SioClient{W: w, Idx: 1, Manager: mgr, Nsp: n}, nil, false)
		c.Socket.Connect()
		witnesses = append(witnesses, c)
	}
	raw := w.NewRawPeer("c0")
	hs, resp := raw.Handshake("")
	if hs == nil {
		e.Violate("C05/raw-handshake-failed", "setup", "%v %d", resp.Err, resp.Status)
		return
	}
	join := p.C("raw_join")
	joined := map[string]bool{}
	for i, n := range names {
		if join&(1<<uint(i)) != 0 {
			joined[n] = true
		}
	}
	target := "/nope"
	if int(p.C("raw_target")) < len(names) {
		target = names[p.C("raw_target")]
	}
	if joined[target] {
		delete(joined, target)
	}
	prefix := func(ns string) string {
		if ns == "/" {
			return ""
		}
		return ns + ","
	}
	var body []string
	for n := range joined {
		body = append(body, "40"+prefix(n))
	}
	sort.Strings(body)
	if len(body) > 0 {
		if r := raw.Post(hs.SID, []byte(strings.Join(body, "\x1e")), false); r.Status != 200 {
			e.Violate("C05/raw-connect-failed", "setup", "POST of CONNECT packets: %d %v", r.Status, r.Err)
			return
		}
		// read the CONNECT replies
		deadline := e.Now() + int64(5*time.Second)
		seen := 0
		for seen < len(body) && e.Now() < deadline {
			r := raw.Poll(hs.SID)
			if r.Err != nil || r.Status != 200 {
				break
			}
			for _, pk := range world.SplitPayload(r.Body) {
				if strings.HasPrefix(pk, "40") {
					seen++
				}
			}
		}
		if seen != len(body) {
			e.Violate("C05/raw-connect-failed", "setup", "%d CONNECT replies for %d CONNECT packets", seen, len(body))
			return
		}
	}
	world.WaitUntil(5*time.Second, func() bool {
		for _, c := range witnesses {
			if !c.Socket.Connected() {
				return false
			}
		}
		return true
	})
	// the offending packet
	spell := prefix(target)
	if target == "/" && p.C("raw_kind")%2 == 1 {
		spell = "/," // the explicit spelling of the main namespace
	}
	var pkts []string
	kind := []string{"EVENT", "ACK", "DISCONNECT", "BINARY_EVENT", "EVENT with ack id"}[p.C("raw_kind")]
	switch kind {
	case "EVENT":
		pkts = []string{"42" + spell + `["ev","x",999]`}
	case "ACK":
		pkts = []string{"43" + spell + `0["x",999]`}
	case "DISCONNECT":
		pkts = []string{"41" + spell}
	case "BINARY_EVENT":
		pkts = []string{"451-" + spell + `["evb",{"_placeholder":true,"num":0},999]`, "bAAEC"}
	default:
		pkts = []string{"42" + spell + `7["ev","x",999]`}
	}
	sig := fmt.Sprintf("%s to %s", kind, map[bool]string{true: "an existing namespace not joined", false: "a namespace the server does not have"}[target != "/nope"])
	e.Log(0, "raw.send", "%q joined=%v target=%s", pkts, joined, target)
	e.NonTrivial()
	r := raw.Post(hs.SID, []byte(strings.Join(pkts, "\x1e")), false)
	// the connection must be closed: polls end with an error status, a CLOSE packet, or session unknown
	closed := r.Status != 200
	deadline := e.Now() + int64(6*time.Second)
	for !closed && e.Now() < deadline {
		rr := raw.Poll(hs.SID)
		if rr.Err != nil || rr.Status != 200 {
			closed = true
			break
		}
		for _, pk := range world.SplitPayload(rr.Body) {
			if pk == "1" {
				closed = true
			}
			if strings.HasPrefix(pk, "44") && kind != "DISCONNECT" {
				// CONNECT_ERROR is not what the statement asks for, but it is not a dispatch either
				e.Probe("answered-with-connect-error")
			}
		}
	}
	time.Sleep(500 * time.Millisecond)
	e.StopStalls()
	e.Check()
	if !closed {
		e.Violate("C05/unjoined-packet-tolerated", sig, "the peer had joined %v and sent %q; 6 s later its connection is still served", c05Keys(joined), pkts)
	}
	mu.Lock()
	defer mu.Unlock()
	e.Check()
	if len(leaked) > 0 {
		e.Violate("C05/unjoined-packet-dispatched", sig, "a packet for a namespace the connection had not joined ran a handler: %v", leaked)
	}
	for _, c := range witnesses {
		e.Check()
		if !c.Socket.Connected() {
			e.Violate("C05/collateral-disconnect", "raw "+sig, "the witness client's socket in %q (another connection) was disconnected: %v", c.Nsp, c.Events())
		}
	}
	e.Shape("raw " + sig)
	e.Sample = map[string]any{"namespaces": names, "joined": c05Keys(joined), "target": target, "packet": pkts, "closed": closed}
}

func c05Keys(m map[string]bool) []string {
	var out []string
	for k := range m {
		out = append(out, k)
	}
	sort.Strings(out)
	return out
}
