package props

import (
	"bytes"
	"fmt"
	"net/http"
	"strconv"
	"sync"
	"time"

	eio "github.com/karagenc/socket.io-go/engine.io"
	eioparser "github.com/karagenc/socket.io-go/engine.io/parser"
	"nhooyr.io/websocket"

	"verif/dst/sim"
	"verif/dst/world"
)

// C13 — size limits are enforced on every transport, and traffic within them is accepted.
//
// Modes:
//   inbound   a raw peer sends one message of an exact wire size by one of four framings
//             (polling with Content-Length, polling chunked, WebSocket, WebSocket fragmented)
//   outbound  real client: server-to-client and in-limit client-to-server messages around the
//             32 KiB / 64 KiB boundaries on every transport, limit tiny / default / disabled
//   batch     real polling client against a small maxPayload: concurrent bursts; every multi-packet
//             POST must fit, nothing dropped, duplicated or reordered

func init() {
	Register(&Property{
		ID: "C13", Title: "Size limits are enforced on every transport, and traffic within them is accepted",
		Level: "exploration",
		Modes: []Mode{{Name: "inbound", Weight: 5}, {Name: "outbound", Weight: 3}, {Name: "batch", Weight: 4}},
		Gen:   genC13, Run: runC13, Enum: enumC13,
		QuickRuns: 4000, ThoroughRuns: 240000,
		Rule: "plan = (limit kind tiny/default/disabled, framing, exact wire size at limit-1/limit/limit+1/10x limit/32767..32769/40000/65536, network chunking/latency, stalls) from VERIF_SEED; " +
			"non-trivial = the decisive message was actually sent on an established session and the accept/reject outcome observed; distinct = distinct (mode, framing, limit kind, size class, outcome) tuples x history digest",
		Assumptions: []string{
			"size = the message as encoded on that transport (packet type byte included; POST body length on polling)",
			"'never buffers' is measured as the number of request-body bytes the library pulls out of an over-limit POST: <= limit + 4 KiB (process-wide allocation counters would also count the simulated sender and network)",
		},
		Real: commonReal, Stub: append([]string{"raw peer: net/http client and nhooyr client driven directly (not the library's client)"}, commonStub...),
	})
}

func genC13(p *sim.Plan, r *sim.Rand, tier string) {
	world.DrawNet(p, r)
	p.Stall = DrawStall(r, 300_000_000)
	kind := r.Weighted([]int{6, 1, 3}) // tiny, default, disabled
	var limit int64
	switch kind {
	case 0:
		limit = int64([]int{16, 100, 1000, 4096, 32768, 50000}[r.Intn(6)])
	case 1:
		limit = 0 // library default (1e6)
	case 2:
		limit = -1 // disabled
	}
	p.Set("limit", limit)
	eff := limit
	if limit == 0 {
		eff = 1_000_000
	}
	switch p.Mode {
	case "inbound":
		p.Set("framing", int64(r.Intn(4))) // 0 poll+CL, 1 poll chunked, 2 ws, 3 ws fragmented
		var sizes []int64
		if limit > 0 || limit == 0 {
			sizes = []int64{eff - 1, eff, eff + 1, eff + 1, eff * 10, eff / 2, 2}
			if eff*10 > 3_000_000 {
				sizes = []int64{eff - 1, eff, eff + 1, eff + 1, eff + 4096}
			}
		} else {
			sizes = []int64{32767, 32768, 32769, 40000, 65536, 200000, 2}
		}
		sz := sizes[r.Intn(len(sizes))]
		if sz < 2 {
			sz = 2
		}
		p.Set("size", sz)
		p.SetB("binary", r.Bool(0.3))
		p.Horizon = int64(20 * time.Second)
	case "outbound":
		p.Set("tr", int64(r.Intn(3)))
		n := r.Range(2, 8)
		for i := 0; i < n; i++ {
			sizes := []int64{1, 125, 126, 32767, 32768, 32769, 40000, 65535, 65536, 150000}
			sz := sizes[r.Intn(len(sizes))]
			dir := int64(r.Intn(2)) // 0 c->s, 1 s->c
			if dir == 0 && limit >= 0 && sz > eff {
				sz = eff - int64(r.Intn(2))
			}
			if sz < 2 {
				sz = 2
			}
			p.Ops = append(p.Ops, sim.Op{At: int64(r.Intn(50)) * 1_000_000, Actor: int(dir), Kind: "msg", I: []int64{int64(i), sz, int64(r.Intn(2))}})
		}
		p.Horizon = int64(30 * time.Second)
	case "batch":
		if limit <= 0 || limit > 4096 {
			limit = int64([]int{20, 64, 200, 1000}[r.Intn(4)])
			p.Set("limit", limit)
		}
		tasks := r.Range(1, 4)
		id := int64(0)
		for t := 0; t < tasks; t++ {
			calls := r.Range(1, 8)
			at := r.I64n(20_000_000)
			for c := 0; c < calls; c++ {
				k := r.Range(1, 6)
				op := sim.Op{At: at, Actor: t, Kind: "send"}
				for j := 0; j < k; j++ {
					id++
					// encoded packet = 1 + data; keep each packet alone within the limit
					max := limit - 1
					var dl int64
					switch r.Intn(4) {
					case 0:
						dl = 0
					case 1:
						dl = max
					case 2:
						dl = max - int64(r.Intn(3))
					default:
						dl = r.I64n(max + 1)
					}
					if dl < 0 {
						dl = 0
					}
					// the id needs room: ids are carried in the first bytes when they fit, else by position
					op.I = append(op.I, id, dl)
				}
				p.Ops = append(p.Ops, op)
				if r.Bool(0.5) {
					at += int64(r.LogDur(1, 30*time.Millisecond))
				}
			}
		}
		p.Horizon = int64(60 * time.Second)
	}
}

func c13ServerCfg(limit int64) *eio.ServerConfig {
	cfg := &eio.ServerConfig{PingInterval: 25 * time.Second, PingTimeout: 20 * time.Minute, UpgradeTimeout: 20 * time.Minute,
		WebSocketAcceptOptions: &websocket.AcceptOptions{CompressionMode: websocket.CompressionDisabled}}
	switch {
	case limit > 0:
		cfg.MaxBufferSize = limit
	case limit < 0:
		cfg.DisableMaxBufferSize = true
	}
	return cfg
}

func runC13(e *sim.Env) {
	switch e.Plan.Mode {
	case "inbound":
		runC13Inbound(e)
	case "outbound":
		runC13Outbound(e)
	case "batch":
		runC13Batch(e)
	}
}

func fill(n int64, seed uint64) []byte {
	b := make([]byte, n)
	for i := range b {
		b[i] = 'a' + byte((uint64(i)+seed)%26)
	}
	return b
}

func runC13Inbound(e *sim.Env) {
	p := e.Plan
	limit := p.C("limit")
	eff := limit
	if limit == 0 {
		eff = 1_000_000
	}
	size := p.C("size")
	framing := p.C("framing")
	over := limit >= 0 && size > eff
	w := world.New(e, world.NetConfigFromPlan(p))
	// how many body bytes does the library pull out of each POST? (what it "accepts or buffers")
	var bodyRead int64
	es := w.StartEIOServerWrapped(c13ServerCfg(limit), func(inner http.Handler) http.Handler {
		return http.HandlerFunc(func(rw http.ResponseWriter, r *http.Request) {
			if r.Method == "POST" {
				r.Body = &countingBody{rc: r.Body, n: &bodyRead}
			}
			inner.ServeHTTP(rw, r)
		})
	})
	raw := w.NewRawPeer("r0")
	framingName := []string{"polling content-length", "polling chunked", "websocket", "websocket fragmented"}[framing]
	limName := "tiny"
	if limit == 0 {
		limName = "default"
	} else if limit < 0 {
		limName = "disabled"
	}
	sig := fmt.Sprintf("%s %s-limit", framingName, limName)
	if framing >= 2 && limit < 0 {
		sig = "websocket disabled-limit"
	}

	payload := fill(size-1, p.Seed) // wire size = 1 type byte + payload
	expectData := payload
	var senderStatus int
	var senderErr error
	var announced int64
	var sid string
	done := false
	e.Go(func() {
		defer func() { done = true }()
		if framing < 2 {
			hs, resp := raw.Handshake("")
			if hs == nil {
				e.Violate("C13/handshake-failed", sig, "raw polling handshake failed: status=%d err=%v", resp.Status, resp.Err)
				return
			}
			sid, announced = hs.SID, hs.MaxPayload
			body := append([]byte{'4'}, payload...)
			resp = raw.Post(sid, body, framing == 1)
			senderStatus, senderErr = resp.Status, resp.Err
			e.Log(0, "raw.post", "size=%d chunked=%v -> status=%d err=%v", len(body), framing == 1, resp.Status, resp.Err)
			if !over && resp.Status == 200 {
				// the session must still work
				r2 := raw.Post(sid, []byte("4probe"), false)
				e.Log(0, "raw.post", "probe -> status=%d err=%v", r2.Status, r2.Err)
				if r2.Status != 200 {
					e.Violate("C13/session-broken-after-in-limit", sig, "after an in-limit message of %d bytes the next POST got status %d (err %v)", size, r2.Status, r2.Err)
				}
			}
			return
		}
		ws, err := raw.DialWS("", -1)
		if err != nil {
			e.Violate("C13/handshake-failed", sig, "raw websocket handshake failed: %v", err)
			return
		}
		sid, announced = ws.HS.SID, ws.HS.MaxPayload
		frags := 1
		if framing == 3 {
			frags = 3
		}
		msg := append([]byte{'4'}, payload...)
		bin := p.B("binary")
		if bin {
			msg = fill(size, p.Seed) // a binary frame is all payload
			expectData = msg
		}
		senderErr = ws.Send(bin, msg, frags)
		e.Log(0, "raw.ws", "size=%d frags=%d -> err=%v", len(msg), frags, senderErr)
		if !over {
			time.Sleep(2 * time.Second)
			if err := ws.Send(false, []byte("4probe"), 1); err != nil {
				e.Violate("C13/session-broken-after-in-limit", sig, "after an in-limit message of %d bytes the next WebSocket message failed: %v", size, err)
			}
			return
		}
		// what does the peer answer? (a read time-out would close the connection from our side, so wait long)
		for i := 0; i < 4; i++ {
			_, data, err := ws.Read(15 * time.Second)
			if err != nil {
				senderErr = err
				senderStatus = int(websocket.CloseStatus(err))
				e.Log(0, "raw.ws", "read err=%v closeStatus=%d", err, senderStatus)
				break
			}
			e.Log(0, "raw.ws", "read %.20q", data)
		}
	})
	time.Sleep(time.Duration(p.Horizon))

	if !done {
		e.Violate("C13/sender-hung", sig, "raw sender still blocked after %v", time.Duration(p.Horizon))
		return
	}
	sides := es.Sides()
	if len(sides) == 0 {
		return
	}
	pk, cl, _, _, _ := sides[0].Snapshot()
	wantAnnounced := eff
	if limit < 0 {
		wantAnnounced = 0
	}
	e.Check()
	if announced != wantAnnounced {
		e.Violate("C13/announced-limit", sig, "handshake announced maxPayload=%d, configured %d", announced, wantAnnounced)
	}
	gotIt := false
	for _, r := range pk {
		if bytes.Equal(r.Data, expectData) {
			gotIt = true
		}
	}
	e.Check()
	e.NonTrivial()
	outcome := "accepted"
	if over {
		if gotIt {
			e.Violate("C13/over-limit-accepted", sig, "a %d-byte message (limit %d) by %s reached OnPacket", size, eff, framingName)
		}
		if len(cl) == 0 {
			e.Violate("C13/over-limit-not-closed", sig, "after a %d-byte message (limit %d) by %s the session was still open %v later (sender saw status=%d err=%v)", size, eff, framingName, time.Duration(p.Horizon), senderStatus, senderErr)
		}
		if framing < 2 && senderStatus != http.StatusRequestEntityTooLarge && senderStatus != 400 && senderErr == nil {
			e.Violate("C13/over-limit-sender-not-told", sig, "sender of a %d-byte POST (limit %d) got status %d", size, eff, senderStatus)
		}
		if framing < 2 {
			e.Check()
			if bodyRead > eff+4096 {
				e.Violate("C13/over-limit-buffered", sig, "of a %d-byte upload against limit %d the server read %d body bytes", size, eff, bodyRead)
			}
		}
		outcome = "rejected"
	} else {
		if !gotIt {
			e.Violate("C13/in-limit-rejected", sig, "a %d-byte message (limit %d, %s) by %s never reached OnPacket; sender saw status=%d err=%v; server close=%v", size, limit, limName, framingName, senderStatus, senderErr, cl)
		}
		if len(cl) > 0 && framing < 2 {
			e.Violate("C13/in-limit-closed", sig, "session closed (%v) after an in-limit message of %d bytes (limit %d)", cl, size, limit)
		}
	}
	cls := "mid"
	switch {
	case size == eff:
		cls = "limit"
	case size == eff+1:
		cls = "limit+1"
	case size == eff-1:
		cls = "limit-1"
	case size > eff:
		cls = "over"
	}
	e.Shape(fmt.Sprintf("in %s %s %s %s", framingName, limName, cls, outcome))
	e.Sample = map[string]any{"mode": "inbound", "framing": framingName, "limit": limit, "wire_size": size, "outcome": outcome, "sender_status": senderStatus, "body_bytes_read_by_server": bodyRead}
}

func runC13Outbound(e *sim.Env) {
	p := e.Plan
	limit := p.C("limit")
	w := world.New(e, world.NetConfigFromPlan(p))
	es := w.StartEIOServer(c13ServerCfg(limit))
	var cli *world.EIOSide
	var dialErr error
	cli, dialErr = w.DialEIO(0, world.ClientOpts{Transports: world.Transports(p.C("tr")), UpgradeTimeout: 20 * time.Minute})
	if dialErr != nil {
		e.Violate("C13/dial-failed", "outbound", "%v", dialErr)
		return
	}
	ok := world.WaitUntil(10*time.Second, func() bool { return len(es.Sides()) == 1 })
	if !ok {
		e.Violate("C13/dial-failed", "outbound", "no server session")
		return
	}
	srv := es.Sides()[0]
	base := e.Now()
	type sent struct {
		dir  int
		size int64
		bin  bool
		data []byte
	}
	var all []sent
	for _, op := range p.Ops {
		op := op
		bin := op.Int(2) == 1
		n := op.Int(1) - 1
		if bin {
			n = op.Int(1)
			if p.C("tr") != 1 && op.Actor == 0 {
				// on polling a binary message travels as 'b' + base64: keep the wire size within the target
				n = (op.Int(1) - 1) / 4 * 3
			}
		}
		if n < 8 {
			n = 8
		}
		data := fill(n, uint64(op.Int(0)))
		copy(data, fmt.Sprintf("%03d:", op.Int(0))) // unique per message
		all = append(all, sent{dir: op.Actor, size: op.Int(1), bin: bin, data: data})
		e.Go(func() {
			e.SleepUntil(base + op.At)
			pk, _ := eioparser.NewPacket(eioparser.PacketTypeMessage, bin, data)
			if op.Actor == 0 {
				cli.Socket.Send(pk)
			} else {
				srv.Socket.Send(pk)
			}
		})
	}
	time.Sleep(time.Duration(p.Horizon))
	spk, scl, _, _, _ := srv.Snapshot()
	cpk, ccl, _, _, _ := cli.Snapshot()
	trn := fmt.Sprint(world.Transports(p.C("tr")))
	limName := "tiny"
	if limit == 0 {
		limName = "default"
	} else if limit < 0 {
		limName = "disabled"
	}
	for _, s := range all {
		e.Check()
		recv := spk
		dir := "c2s"
		if s.dir == 1 {
			recv, dir = cpk, "s2c"
		}
		n := 0
		for _, r := range recv {
			if bytes.Equal(r.Data, s.data) && r.Binary == s.bin {
				n++
			}
		}
		sig := fmt.Sprintf("%s %s %s-limit", dir, trn, limName)
		if dir == "c2s" && limit < 0 && p.C("tr") != 0 {
			sig = "websocket disabled-limit"
		}
		if n == 0 {
			e.Violate("C13/in-limit-rejected", sig, "%s message of %d bytes (limit %d, transports %s) was not delivered; client close=%v server close=%v", dir, s.size, limit, trn, ccl, scl)
		} else if n > 1 {
			e.Violate("C13/duplicated", sig, "%s message of %d bytes delivered %d times", dir, s.size, n)
		}
	}
	if len(ccl) > 0 || len(scl) > 0 {
		e.Violate("C13/in-limit-closed", fmt.Sprintf("%s %s-limit", trn, limName), "session closed although every message was within the limit: client=%v server=%v", ccl, scl)
	}
	e.NonTrivial()
	e.Shape(fmt.Sprintf("out %s %s n%d", trn, limName, len(all)))
	e.Sample = map[string]any{"mode": "outbound", "transports": trn, "limit": limit, "messages": len(all)}
}

func runC13Batch(e *sim.Env) {
	p := e.Plan
	limit := p.C("limit")
	w := world.New(e, world.NetConfigFromPlan(p))
	// record every POST body length as the server's HTTP layer sees it
	var mu sync.Mutex
	var posts []int64
	es := &world.EIOServer{W: w}
	_ = es
	srv := w.StartEIOServerWrapped(c13ServerCfg(limit), func(inner http.Handler) http.Handler {
		return http.HandlerFunc(func(rw http.ResponseWriter, r *http.Request) {
			if r.Method == "POST" {
				mu.Lock()
				posts = append(posts, r.ContentLength)
				mu.Unlock()
			}
			inner.ServeHTTP(rw, r)
		})
	})
	cli, err := w.DialEIO(0, world.ClientOpts{Transports: []string{"polling"}})
	if err != nil {
		e.Violate("C13/dial-failed", "batch", "%v", err)
		return
	}
	base := e.Now()
	byActor := map[int][]sim.Op{}
	for _, op := range p.Ops {
		byActor[op.Actor] = append(byActor[op.Actor], op)
	}
	want := map[int][]int64{}
	total := 0
	for a := 0; a < 8; a++ {
		ops, ok := byActor[a]
		if !ok {
			continue
		}
		a := a
		for _, op := range ops {
			for j := 0; j+1 < len(op.I); j += 2 {
				want[a] = append(want[a], op.I[j])
				total++
			}
		}
		e.Go(func() {
			for _, op := range ops {
				e.SleepUntil(base + op.At)
				var pk []*eioparser.Packet
				for j := 0; j+1 < len(op.I); j += 2 {
					id, dl := op.I[j], op.I[j+1]
					data := c13Data(id, dl)
					x, _ := eioparser.NewPacket(eioparser.PacketTypeMessage, false, data)
					pk = append(pk, x)
				}
				iid, _ := e.Invoke(a, fmt.Sprintf("send %d packets", len(pk)))
				cli.Socket.Send(pk...)
				e.Return(a, iid, "send")
			}
		})
	}
	time.Sleep(time.Duration(p.Horizon))
	if pend := e.Pending(); len(pend) > 0 {
		e.Violate("C13/send-never-returned", "batch", "%v", pend)
	}
	sides := srv.Sides()
	if len(sides) != 1 {
		e.Violate("C13/dial-failed", "batch", "server sessions: %d", len(sides))
		return
	}
	spk, scl, _, _, _ := sides[0].Snapshot()
	_, ccl, _, _, _ := cli.Snapshot()
	mu.Lock()
	ps := append([]int64(nil), posts...)
	mu.Unlock()
	over := 0
	for _, cl := range ps {
		e.Check()
		if cl > limit {
			over++
			e.Violate("C13/batch-over-maxpayload", "batcher", "client sent a POST of %d bytes against the announced maxPayload %d", cl, limit)
		}
	}
	if len(scl) > 0 || len(ccl) > 0 {
		e.Violate("C13/in-limit-closed", "batch", "session closed during in-limit bursts: client=%v server=%v (POST sizes %v, maxPayload %d)", ccl, scl, ps, limit)
	}
	// exactly once; per Send call order. Packets whose data is too short to carry an id are matched by count.
	seen := map[int64]int{}
	var order []int64
	anon := 0
	for _, r := range spk {
		id, ok := c13ID(r.Data)
		if !ok {
			anon++
			continue
		}
		seen[id]++
		order = append(order, id)
	}
	wantAnon := 0
	pos := map[int64]int{}
	for i, id := range order {
		pos[id] = i
	}
	for a, ids := range want {
		last := -1
		for _, id := range ids {
			if !c13HasID(p, id) {
				wantAnon++
				continue
			}
			e.Check()
			switch seen[id] {
			case 0:
				if len(scl) == 0 {
					e.Violate("C13/batch-dropped", "batcher", "packet %d of sender %d never reached the server (POST sizes %v)", id, a, ps)
				}
			case 1:
				if pos[id] < last {
					e.Violate("C13/batch-reordered", "batcher", "packet %d of sender %d overtook an earlier packet of the same sender", id, a)
				}
				last = pos[id]
			default:
				e.Violate("C13/batch-duplicated", "batcher", "packet %d delivered %d times", id, seen[id])
			}
		}
	}
	if anon != wantAnon && len(scl) == 0 {
		e.Violate("C13/batch-dropped", "batcher", "%d id-less packets sent, %d received", wantAnon, anon)
	}
	multi := 0
	for _, cl := range ps {
		if cl > 3 {
			multi++
		}
	}
	if multi > 0 && total >= 3 {
		e.NonTrivial()
	}
	e.Shape(fmt.Sprintf("batch lim%d posts%d", limit, len(ps)))
	e.Sample = map[string]any{"mode": "batch", "max_payload": limit, "packets": total, "posts": ps}
}

// c13Data builds a packet body of exactly dl bytes that carries id when it fits ("<id>:" prefix).
func c13Data(id, dl int64) []byte {
	pre := strconv.FormatInt(id, 10) + ":"
	if int64(len(pre)) > dl {
		return bytes.Repeat([]byte{'-'}, int(dl))
	}
	return append([]byte(pre), bytes.Repeat([]byte{'x'}, int(dl)-len(pre))...)
}

func c13ID(data []byte) (int64, bool) {
	i := bytes.IndexByte(data, ':')
	if i <= 0 {
		return 0, false
	}
	id, err := strconv.ParseInt(string(data[:i]), 10, 64)
	return id, err == nil
}

func c13HasID(p *sim.Plan, id int64) bool {
	for _, op := range p.Ops {
		for j := 0; j+1 < len(op.I); j += 2 {
			if op.I[j] == id {
				return int64(len(strconv.FormatInt(id, 10))+1) <= op.I[j+1]
			}
		}
	}
	return false
}

// enumC13: the client batcher, every vector of up to 6 packet sizes x every maxPayload (input enumeration).
func enumC13(tier string, seed uint64) []EnumResult {
	maxLen, maxPayload, n := 4, 30, 6
	if tier == "thorough" {
		maxLen, maxPayload = 6, 48
	}
	res := EnumResult{Name: "client batcher (VerifClientBatches): every vector of <= 6 packet data lengths in 0.." + strconv.Itoa(maxLen) + " x every maxPayload in 1.." + strconv.Itoa(maxPayload), Exhaustive: true}
	sizes := make([]int, n)
	var rec func(k, depth int)
	viol := map[string]bool{}
	check := func(vec []int) {
		for mp := 1; mp <= maxPayload; mp++ {
			fits := true
			pk := make([]*eioparser.Packet, len(vec))
			for i, dl := range vec {
				pk[i], _ = eioparser.NewPacket(eioparser.PacketTypeMessage, false, bytes.Repeat([]byte{byte('a' + i)}, dl))
				if 1+dl > mp {
					fits = false
				}
			}
			if !fits {
				continue // a packet that alone exceeds the limit is outside the statement
			}
			res.Cases++
			batches := eio.VerifClientBatches("polling", int64(mp), pk)
			var flat []*eioparser.Packet
			for _, b := range batches {
				if len(b) == 0 {
					if !viol["empty"] {
						viol["empty"] = true
						res.Violations = append(res.Violations, sim.Violation{Class: "C13/batch-empty", Sig: "batcher", Detail: fmt.Sprintf("sizes=%v maxPayload=%d: an empty batch was handed to the transport", vec, mp)})
					}
				}
				if len(b) > 1 && eioparser.EncodedPayloadsLen(b...) > mp && !viol["over"] {
					viol["over"] = true
					res.Violations = append(res.Violations, sim.Violation{Class: "C13/batch-over-maxpayload", Sig: "batcher", Detail: fmt.Sprintf("packet data lengths %v, maxPayload %d: a batch of %d packets encodes to %d bytes", vec, mp, len(b), eioparser.EncodedPayloadsLen(b...))})
				}
				flat = append(flat, b...)
			}
			same := len(flat) == len(pk)
			for i := 0; same && i < len(pk); i++ {
				same = flat[i] == pk[i]
			}
			if !same && !viol["order"] {
				viol["order"] = true
				res.Violations = append(res.Violations, sim.Violation{Class: "C13/batch-dropped", Sig: "batcher", Detail: fmt.Sprintf("packet data lengths %v, maxPayload %d: batches do not concatenate to the input (%d of %d packets)", vec, mp, len(flat), len(pk))})
			}
		}
	}
	rec = func(k, depth int) {
		if k > 0 {
			check(sizes[:k])
		}
		if k == depth {
			return
		}
		for s := 0; s <= maxLen; s++ {
			sizes[k] = s
			rec(k+1, depth)
		}
	}
	rec(0, n)
	res.Samples = []string{"sizes=[0 4 1] maxPayload=7", "sizes=[3 3 3 3 3 3] maxPayload=4"}
	return []EnumResult{res}
}

type countingBody struct {
	rc interface {
		Read([]byte) (int, error)
		Close() error
	}
	n *int64
}

func (c *countingBody) Read(p []byte) (int, error) {
	k, err := c.rc.Read(p)
	*c.n += int64(k)
	return k, err
}
func (c *countingBody) Close() error { return c.rc.Close() }
