package props

import (
	"bytes"
	"encoding/json"
	"fmt"
	"sort"
	"strings"
	"sync"
	"time"

	"github.com/anishathalye/porcupine"
	eio "github.com/karagenc/socket.io-go/engine.io"
	eioparser "github.com/karagenc/socket.io-go/engine.io/parser"

	"verif/dst/sim"
	"verif/dst/world"
)

// C17 — invalid Engine.IO requests get the protocol's error and create no session.
//
// Modes:
//   matrix      the full matrix method x EIO x transport x sid x {b64, j} against a server holding one
//               live and one closed session (exhaustive per world; worlds differ by stall seed / network)
//   closerace   handshakes racing Server.Close
//   churn       concurrent handshakes / closes / probes; session-store history checked for
//               linearizability against a set; sid uniqueness among live sessions

func init() {
	Register(&Property{
		ID: "C17", Title: "Invalid Engine.IO requests get the protocol's error and create no session",
		Level: "exploration",
		Modes: []Mode{{Name: "matrix", Weight: 3}, {Name: "closerace", Weight: 4}, {Name: "churn", Weight: 3}},
		Gen:   genC17, Run: runC17, Enum: enumC17,
		QuickRuns: 1000, ThoroughRuns: 72000,
		Rule: "[the closed session of the matrix ended, per plan, by Socket.Close on the server, by a CLOSE packet of the peer, or by a malformed POST (transport error)] matrix: every request of {GET,POST,PUT,DELETE,OPTIONS,HEAD} x EIO{absent,3,4,5,junk} x transport{absent,polling,websocket,junk} x sid{absent,unknown,live,closed} x {b64} x {j} = 1920 per world (exhaustive), worlds differ by stall seed and network; " +
			"closerace: 2..12 handshakes (polling/websocket) at drawn instants around Server.Close; churn: 3..6 tasks opening, closing and probing sessions; non-trivial = matrix completed / a handshake overlapped Close / >= 10 store operations; distinct = distinct history digest",
		Assumptions: []string{
			"a request with several defects may be answered with the code of any of them (the protocol fixes no precedence)",
			"odd methods on a live session id are only required to have no side effects",
		},
		Real: commonReal, Stub: append([]string{"raw HTTP peer: net/http client driven directly"}, commonStub...),
	})
}

func genC17(p *sim.Plan, r *sim.Rand, tier string) {
	world.DrawNet(p, r)
	if p.C("lat_us") > 2000 {
		p.Set("lat_us", 2000)
		p.Set("jit_us", 200)
	}
	p.Stall = DrawStall(r, 500_000_000, "engine.io/store.go", "engine.io/server.go")
	switch p.Mode {
	case "matrix":
		p.Set("order_seed", int64(r.U64()>>1))
		// how the closed session ended: closed by the server, CLOSE packet of the peer, transport error
		p.Set("close_how", int64(r.Intn(3)))
		p.Horizon = int64(10 * time.Minute)
	case "closerace":
		n := r.Range(2, 12)
		closeAt := int64(r.Range(5, 60)) * 1_000_000
		p.Set("close_at", closeAt)
		for i := 0; i < n; i++ {
			at := closeAt + r.I64n(20_000_000) - 12_000_000
			if at < 0 {
				at = 0
			}
			p.Ops = append(p.Ops, sim.Op{At: at, Actor: i, Kind: "handshake", I: []int64{int64(r.Intn(2))}})
		}
		p.Horizon = closeAt + int64(60*time.Second)
	case "churn":
		tasks := r.Range(3, 6)
		for t := 0; t < tasks; t++ {
			at := r.I64n(5_000_000)
			for k := 0; k < r.Range(3, 8); k++ {
				kind := []string{"open", "open", "close", "probe", "probe"}[r.Intn(5)]
				p.Ops = append(p.Ops, sim.Op{At: at, Actor: t, Kind: kind, I: []int64{int64(r.Intn(8))}})
				at += int64(r.LogDur(1, 3*time.Millisecond))
			}
		}
		p.Horizon = int64(30 * time.Second)
	}
}

type c17Srv struct {
	es      *world.EIOServer
	mu      sync.Mutex
	created int
}

func runC17(e *sim.Env) {
	switch e.Plan.Mode {
	case "matrix":
		runC17Matrix(e)
	case "closerace":
		runC17CloseRace(e)
	case "churn":
		runC17Churn(e)
	}
}

type errBody struct {
	Code    *int   `json:"code"`
	Message string `json:"message"`
}

func runC17Matrix(e *sim.Env) {
	p := e.Plan
	w := world.New(e, world.NetConfigFromPlan(p))
	es := w.StartEIOServer(&eio.ServerConfig{PingInterval: 10 * time.Minute, PingTimeout: 10 * time.Minute})
	raw := w.NewRawPeer("r0")
	// one live and one closed session
	live, _ := raw.Handshake("")
	closed, _ := raw.Handshake("")
	if live == nil || closed == nil {
		e.Violate("C17/setup", "matrix", "could not create the live and the closed session")
		return
	}
	sides := es.Sides()
	switch p.C("close_how") {
	case 1:
		raw.Post(closed.SID, []byte("1"), false)
	case 2:
		raw.Post(closed.SID, []byte("z-not-a-packet"), false)
	default:
		for _, s := range sides {
			if s.Socket.ID() == closed.SID {
				s.Socket.Close()
			}
		}
	}
	time.Sleep(100 * time.Millisecond)
	for _, s := range sides {
		if _, cl, _, _, _ := s.Snapshot(); s.Socket.ID() == closed.SID && len(cl) == 0 {
			e.Violate("C17/setup", "matrix", "the session to be closed (close_how=%d) did not close", p.C("close_how"))
			return
		}
	}
	raw.Poll(closed.SID) // drain whatever the close left
	var liveSide *world.EIOSide
	for _, s := range sides {
		if s.Socket.ID() == live.SID {
			liveSide = s
		}
	}
	created := func() int { return len(es.Sides()) }
	base := created()

	methods := []string{"GET", "POST", "PUT", "DELETE", "OPTIONS", "HEAD"}
	versions := []string{"-", "3", "4", "5", "junk"}
	transports := []string{"-", "polling", "websocket", "junk"}
	sids := []string{"-", "unknown", "live", "closed"}
	type req struct {
		m, v, t, s string
		b64, j     bool
	}
	var reqs []req
	for _, m := range methods {
		for _, v := range versions {
			for _, t := range transports {
				for _, s := range sids {
					for _, b := range []bool{false, true} {
						for _, j := range []bool{false, true} {
							reqs = append(reqs, req{m, v, t, s, b, j})
						}
					}
				}
			}
		}
	}
	or := sim.NewRand(uint64(p.C("order_seed")))
	perm := or.Perm(len(reqs))
	probeN := 0
	for _, pi := range perm {
		rq := reqs[pi]
		var q []string
		if rq.v != "-" {
			q = append(q, "EIO="+rq.v)
		}
		if rq.t != "-" {
			q = append(q, "transport="+rq.t)
		}
		switch rq.s {
		case "unknown":
			q = append(q, "sid=nosuchsessionid000AAAA")
		case "live":
			q = append(q, "sid="+live.SID)
		case "closed":
			q = append(q, "sid="+closed.SID)
		}
		if rq.b64 {
			q = append(q, "b64=1")
		}
		if rq.j {
			q = append(q, "j=0")
		}
		// defects present
		codes := map[int]bool{}
		if rq.v != "4" {
			codes[5] = true
		}
		switch rq.s {
		case "unknown", "closed":
			codes[1] = true
		case "-":
			if rq.t != "polling" && rq.t != "websocket" {
				codes[0] = true
			}
			if rq.m != "GET" {
				codes[2] = true
			}
			if rq.t == "websocket" {
				codes[3] = true // a plain HTTP request is not a WebSocket handshake
			}
		case "live":
			if rq.t != "polling" {
				codes[3] = true
				codes[0] = true
			}
		}
		valid := len(codes) == 0
		desc := fmt.Sprintf("%s ?%s", rq.m, strings.Join(q, "&"))
		if valid && rq.s == "live" && rq.m == "GET" {
			// a valid poll: make sure something is queued so that it returns at once
			pk, _ := eioparser.NewPacket(eioparser.PacketTypeMessage, false, []byte("tick"))
			liveSide.Socket.Send(pk)
		}
		var body *bytes.Reader
		var cl int64
		var hdr map[string]string
		if rq.m == "POST" || rq.m == "PUT" {
			b := []byte("4hello")
			if rq.j {
				// a JSONP data request carries its payload as a form field
				b = []byte("d=4hello")
				hdr = map[string]string{"Content-Type": "application/x-www-form-urlencoded"}
			}
			body = bytes.NewReader(b)
			cl = int64(len(b))
		}
		before := created()
		var resp world.RawResp
		ok := e.Try(5*time.Minute, func() {
			if body != nil {
				resp = raw.Do(rq.m, strings.Join(q, "&"), body, cl, hdr)
			} else {
				resp = raw.Do(rq.m, strings.Join(q, "&"), nil, 0, nil)
			}
		})
		e.Check()
		if !ok {
			e.Violate("C17/request-hung", desc, "%s got no answer within 5 minutes", desc)
			return
		}
		if resp.Err != nil {
			e.Violate("C17/request-failed", desc, "%s: transport error %v", desc, resp.Err)
			continue
		}
		after := created()
		switch {
		case valid:
			if resp.Status != 200 {
				e.Violate("C17/valid-rejected", desc, "%s has no defect but got status %d body %.80q", desc, resp.Status, resp.Body)
			}
			if rq.s == "-" && after != before+1 {
				e.Violate("C17/valid-rejected", desc, "%s: a valid handshake created %d sessions", desc, after-before)
			}
		case rq.s == "live" && rq.m != "GET" && rq.m != "POST" && len(codes) == 0:
			// odd method on a live session: no side effect required, nothing else
		default:
			if after != before {
				e.Violate("C17/invalid-created-session", desc, "%s (defect codes %v) created %d session(s)", desc, keys(codes), after-before)
			}
			if rq.s == "live" && rq.m != "GET" && rq.m != "POST" && rq.t == "polling" && rq.v == "4" {
				break
			}
			if resp.Status < 400 || resp.Status >= 500 {
				e.Violate("C17/invalid-not-rejected", desc, "%s (defect codes %v) got status %d body %.80q", desc, keys(codes), resp.Status, resp.Body)
				break
			}
			if rq.m == "HEAD" {
				break
			}
			if rq.t == "websocket" && rq.v == "4" && (rq.s == "live" || (rq.s == "-" && rq.m == "GET")) {
				break // a plain HTTP request is no WebSocket handshake: the WebSocket library answers it itself (426)
			}
			var eb errBody
			if err := json.Unmarshal(resp.Body, &eb); err != nil || eb.Code == nil {
				e.Violate("C17/no-error-body", desc, "%s: status %d but no protocol error body: %.80q", desc, resp.Status, resp.Body)
			} else if !codes[*eb.Code] {
				e.Violate("C17/wrong-error-code", fmt.Sprintf("%s %v", desc, keys(codes)), "%s: error code %d (%s) is not one of the defects present %v", desc, *eb.Code, eb.Message, keys(codes))
			} else if resp.Status != 400 {
				e.Violate("C17/wrong-status", desc, "%s: protocol error with status %d (want 400)", desc, resp.Status)
			}
		}
		// the live session is unaffected: every 64 requests a message round-trips
		probeN++
		if probeN%64 == 0 {
			e.Check()
			if !c17LiveWorks(e, raw, live.SID, liveSide, probeN) {
				e.Violate("C17/live-session-disturbed", desc, "after %s (and the requests before it) the live session no longer carries messages", desc)
				return
			}
		}
	}
	e.Check()
	if !c17LiveWorks(e, raw, live.SID, liveSide, 999999) {
		e.Violate("C17/live-session-disturbed", "end", "after the matrix the live session no longer carries messages")
	}
	if created() != base+countValidHandshakes(len(reqs)) {
		// informational only: exact count is asserted per request above
	}
	e.NonTrivial()
	e.Shape("matrix")
	e.Sample = map[string]any{"mode": "matrix", "requests": len(reqs), "sessions_created": created() - base}
}

func countValidHandshakes(n int) int { return 0 }

func keys(m map[int]bool) []int {
	var out []int
	for k := range m {
		out = append(out, k)
	}
	sort.Ints(out)
	return out
}

func c17LiveWorks(e *sim.Env, raw *world.RawPeer, sid string, side *world.EIOSide, n int) bool {
	msg := fmt.Sprintf("probe%d", n)
	var resp world.RawResp
	if !e.Try(time.Minute, func() { resp = raw.Post(sid, []byte("4"+msg), false) }) || resp.Status != 200 {
		return false
	}
	pk, _, _, _, _ := side.Snapshot()
	got := false
	for _, r := range pk {
		got = got || string(r.Data) == msg
	}
	if !got {
		return false
	}
	// and the other way
	back, _ := eioparser.NewPacket(eioparser.PacketTypeMessage, false, []byte("back"+msg))
	side.Socket.Send(back)
	var pr world.RawResp
	if !e.Try(time.Minute, func() { pr = raw.Poll(sid) }) || pr.Status != 200 {
		return false
	}
	return strings.Contains(string(pr.Body), "back"+msg)
}

func runC17CloseRace(e *sim.Env) {
	p := e.Plan
	w := world.New(e, world.NetConfigFromPlan(p))
	// heartbeats far away: a session that slips past Close must not be tidied up by a ping time-out
	es := w.StartEIOServer(&eio.ServerConfig{PingInterval: 30 * time.Minute, PingTimeout: 30 * time.Minute})
	type hs struct {
		at, done int64
		sid      string
		status   int
		ws       bool
		err      error
	}
	results := make([]*hs, len(p.Ops))
	var closeInv, closeRet int64 = -1, -1
	for i, op := range p.Ops {
		i, op := i, op
		results[i] = &hs{at: -1, done: -1, ws: op.Int(0) == 1}
		e.Go(func() {
			e.SleepUntil(op.At)
			raw := w.NewRawPeer(fmt.Sprintf("r%d", i))
			results[i].at = e.Now()
			if op.Int(0) == 1 {
				ws, err := raw.DialWS("", -1)
				if err == nil {
					results[i].sid = ws.HS.SID
					results[i].status = 101
				} else {
					results[i].err = err
				}
			} else {
				h, resp := raw.Handshake("")
				results[i].status = resp.Status
				results[i].err = resp.Err
				if h != nil {
					results[i].sid = h.SID
				}
			}
			results[i].done = e.Now()
		})
	}
	e.Go(func() {
		e.SleepUntil(p.C("close_at"))
		closeInv = e.Now()
		id, _ := e.Invoke(99, "Server.Close")
		es.Server.Close()
		closeRet = e.Now()
		e.Return(99, id, "closed")
	})
	time.Sleep(time.Duration(p.Horizon))
	e.StopStalls()
	if closeRet < 0 {
		e.Violate("C17/close-hung", "closerace", "Server.Close did not return")
		return
	}
	overlap := 0
	// every session the server created must be closed by now
	for _, s := range es.Sides() {
		_, cl, _, _, openAt := s.Snapshot()
		e.Check()
		if len(cl) == 0 {
			e.Violate("C17/session-survived-close", "closerace", "session %s (created t=%d; Close invoked t=%d returned t=%d) was never closed: it lives on in a closed server", s.Socket.ID(), openAt, closeInv, closeRet)
		}
	}
	probe := w.NewRawPeer("probe")
	for _, r := range results {
		if r.at >= 0 && r.at <= closeRet && (r.done < 0 || r.done >= closeInv) {
			overlap++
		}
		if r.sid == "" {
			continue
		}
		e.Check()
		var pr world.RawResp
		if !e.Try(30*time.Second, func() { pr = probe.Do("GET", "EIO=4&transport=polling&sid="+r.sid, nil, 0, nil) }) {
			e.Violate("C17/session-survived-close", "closerace", "a poll on session %s is still pending 30 s after the server was closed", r.sid)
			continue
		}
		if pr.Status == 200 {
			e.Violate("C17/session-survived-close", "closerace", "session %s (handshake t=%d..%d, Close t=%d..%d) still answers polls after the server was closed", r.sid, r.at, r.done, closeInv, closeRet)
		}
	}
	// new handshakes are refused
	e.Check()
	h, resp := probe.Handshake("")
	if h != nil || resp.Status == 200 {
		e.Violate("C17/closed-server-admits", "closerace", "a handshake after Close was accepted (status %d)", resp.Status)
	}
	if overlap > 0 {
		e.NonTrivial()
	}
	e.Shape(fmt.Sprintf("closerace n%d overlap%d", len(results), overlap))
	e.Sample = map[string]any{"mode": "closerace", "handshakes": len(results), "overlapping_close": overlap, "sessions_created": len(es.Sides())}
}

type setOp struct {
	kind string // add, del, has
	sid  string
}

var setModel = porcupine.Model{
	Init: func() interface{} { return "" },
	Step: func(state, input, output interface{}) (bool, interface{}) {
		st := state.(string)
		in := input.(setOp)
		has := strings.Contains(st, "|"+in.sid+"|")
		switch in.kind {
		case "add":
			if has {
				return false, st
			}
			return true, st + "|" + in.sid + "|"
		case "del":
			return true, strings.Replace(st, "|"+in.sid+"|", "", 1)
		default:
			return output.(bool) == has, st
		}
	},
	Equal: func(a, b interface{}) bool {
		x := strings.Split(a.(string), "|")
		y := strings.Split(b.(string), "|")
		sort.Strings(x)
		sort.Strings(y)
		return strings.Join(x, "|") == strings.Join(y, "|")
	},
}

func runC17Churn(e *sim.Env) {
	p := e.Plan
	w := world.New(e, world.NetConfigFromPlan(p))
	es := w.StartEIOServer(&eio.ServerConfig{PingInterval: 10 * time.Minute, PingTimeout: 10 * time.Minute})
	var mu sync.Mutex
	var sids []string
	var hist []porcupine.Operation
	byActor := map[int][]sim.Op{}
	for _, op := range p.Ops {
		byActor[op.Actor] = append(byActor[op.Actor], op)
	}
	actors := []int{}
	for a := range byActor {
		actors = append(actors, a)
	}
	sort.Ints(actors)
	for _, a := range actors {
		a := a
		ops := byActor[a]
		raw := w.NewRawPeer(fmt.Sprintf("r%d", a))
		e.Go(func() {
			for _, op := range ops {
				e.SleepUntil(op.At)
				switch op.Kind {
				case "open":
					iid, cs := e.Invoke(a, "open")
					h, resp := raw.Handshake("")
					rs := e.Return(a, iid, "open")
					if h == nil {
						e.Violate("C17/valid-rejected", "churn", "valid handshake failed: %d %v", resp.Status, resp.Err)
						continue
					}
					mu.Lock()
					for _, s := range sids {
						if s == h.SID {
							e.Violate("C17/duplicate-sid", "churn", "session id %s handed out twice among live sessions", h.SID)
						}
					}
					sids = append(sids, h.SID)
					hist = append(hist, porcupine.Operation{ClientId: a, Input: setOp{"add", h.SID}, Call: int64(cs), Return: int64(rs)})
					mu.Unlock()
				case "close":
					mu.Lock()
					var sid string
					if len(sids) > 0 {
						sid = sids[int(op.Int(0))%len(sids)]
					}
					mu.Unlock()
					if sid == "" {
						continue
					}
					for _, s := range es.Sides() {
						if s.Socket.ID() == sid {
							iid, cs := e.Invoke(a, "close "+sid)
							s.Socket.Close()
							rs := e.Return(a, iid, "close")
							mu.Lock()
							hist = append(hist, porcupine.Operation{ClientId: a, Input: setOp{"del", sid}, Call: int64(cs), Return: int64(rs)})
							mu.Unlock()
						}
					}
				case "probe":
					mu.Lock()
					var sid string
					if len(sids) > 0 {
						sid = sids[int(op.Int(0))%len(sids)]
					}
					mu.Unlock()
					if sid == "" {
						continue
					}
					// a POST never blocks: known session -> 200, unknown -> 400 code 1
					iid, cs := e.Invoke(a, "probe "+sid)
					resp := raw.Post(sid, []byte("4x"), false)
					rs := e.Return(a, iid, "probe")
					known := resp.Status == 200
					if !known && !strings.Contains(string(resp.Body), `"code":1`) {
						e.Violate("C17/wrong-error-code", "churn probe", "probe of %s: status %d body %.60q", sid, resp.Status, resp.Body)
					}
					mu.Lock()
					hist = append(hist, porcupine.Operation{ClientId: a, Input: setOp{"has", sid}, Output: known, Call: int64(cs), Return: int64(rs)})
					mu.Unlock()
				}
			}
		})
	}
	time.Sleep(time.Duration(p.Horizon))
	if pend := e.Pending(); len(pend) > 0 {
		e.Violate("C17/request-hung", "churn", "%v", pend)
		return
	}
	e.Check()
	if len(hist) > 0 && len(hist) <= 48 {
		switch porcupine.CheckOperationsTimeout(setModel, hist, 20*time.Second) {
		case porcupine.Illegal:
			e.Violate("C17/store-not-linearizable", "churn", "open/close/probe history is not linearizable against a set of session ids (%d operations)", len(hist))
		case porcupine.Unknown:
			e.Inconclusive()
		default:
			e.Probe("porcupine-ok")
		}
	}
	if len(hist) >= 10 {
		e.NonTrivial()
	}
	e.Shape(fmt.Sprintf("churn ops%d", len(hist)))
	e.Sample = map[string]any{"mode": "churn", "store_operations": len(hist), "sessions": len(sids)}
}

// enumC17: session id generation (input enumeration).
func enumC17(tier string, seed uint64) []EnumResult {
	n := 200_000
	if tier == "thorough" {
		n = 1_000_000
	}
	res := EnumResult{Name: fmt.Sprintf("%d GenerateBase64ID(15) calls: all distinct, each 20 URL-safe characters", n)}
	seen := make(map[string]bool, n)
	for i := 0; i < n; i++ {
		id, err := eio.GenerateBase64ID(eio.Base64IDSize)
		res.Cases++
		if err != nil {
			res.Violations = append(res.Violations, sim.Violation{Class: "C17/sid-generation", Sig: "error", Detail: err.Error()})
			break
		}
		if seen[id] {
			res.Violations = append(res.Violations, sim.Violation{Class: "C17/duplicate-sid", Sig: "GenerateBase64ID", Detail: fmt.Sprintf("id %s generated twice within %d calls", id, i)})
			break
		}
		if len(id) != 20 || strings.ContainsAny(id, "+/=") {
			res.Violations = append(res.Violations, sim.Violation{Class: "C17/sid-generation", Sig: "format", Detail: fmt.Sprintf("id %q is not 20 URL-safe characters", id)})
			break
		}
		seen[id] = true
	}
	res.Samples = []string{"first id of this run: see ids above"}
	return []EnumResult{res}
}
