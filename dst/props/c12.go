package props

import (
	"encoding/json"
	"errors"
	"fmt"
	"sort"
	"strings"
	"sync"
	"time"

	mapset "github.com/deckarep/golang-set/v2"
	sio "github.com/karagenc/socket.io-go"

	"verif/dst/sim"
	"verif/dst/world"
)

// C12 — middlewares gate admission and events: nothing passes that a middleware rejected.
//
// One plan = a namespace (default or custom) with a chain of 0..5 middlewares, each with a delay, a set of
// clients it rejects, a rejection form (error / string / struct) and optionally a room it joins first;
// 1..4 clients connecting at drawn instants; namespace broadcasts issued while chains run; and, on the
// admitted sockets, a per-socket event middleware that records and rejects events.

func init() {
	Register(&Property{
		ID: "C12", Title: "Middlewares gate admission and events: nothing passes that a middleware rejected",
		Level: "exploration",
		Modes: []Mode{{Name: "gate", Weight: 1}},
		Gen:   genC12, Run: runC12,
		QuickRuns: 5000, ThoroughRuns: 300000,
		Rule: "[half of the plans register several handlers (On and Once) per event name] plan = (namespace / or /admin, chain of 0..5 middlewares each with delay 0..400 ms, reject mask over clients, rejection form error|string|struct, optional room joined before deciding; 1..4 clients with connect instants; 0..12 namespace broadcasts at drawn instants; per admitted socket 0..6 events out of {string-first, int-first, with ack, rejected name}; transport; network and stall parameters) from VERIF_SEED; " +
			"non-trivial = at least one client was rejected and one admitted, or a broadcast was issued while a chain was running, or an event was rejected; distinct = distinct history digest",
		Assumptions: []string{
			"a broadcast is 'issued before acceptance' when its Emit call returned before the last middleware of that client's chain returned",
		},
		Real: commonReal, Stub: commonStub,
	})
}

func genC12(p *sim.Plan, r *sim.Rand, tier string) {
	world.DrawNet(p, r)
	if p.C("lat_us") > 35000 {
		p.Set("lat_us", 35000)
		p.Set("jit_us", 3000)
	}
	p.Set("tr", int64(r.Intn(3)))
	p.Stall = DrawStall(r, 200_000_000, "namespace.go", "middleware.go", "server_conn.go")
	p.Set("custom_nsp", int64(r.Intn(2)))
	nc := r.Range(1, 4)
	p.Set("clients", int64(nc))
	nm := r.Range(0, 5)
	for i := 0; i < nm; i++ {
		mask := int64(0)
		if r.Bool(0.5) {
			mask = int64(r.Intn(1 << nc))
		}
		p.Ops = append(p.Ops, sim.Op{Kind: "mw", Actor: 90, I: []int64{int64(i), int64(r.Intn(5)) * int64(r.Intn(100)), mask, int64(r.Intn(3)), int64(r.Intn(3) / 2)}})
	}
	for c := 0; c < nc; c++ {
		at := int64(r.Intn(50)) * 1_000_000
		p.Ops = append(p.Ops, sim.Op{At: at, Actor: c, Kind: "connect", I: []int64{int64(c)}})
		// events once connected (times relative to the plan start; sent only if connected)
		for k := 0; k < r.Range(0, 6); k++ {
			p.Ops = append(p.Ops, sim.Op{At: at + int64(r.Range(500, 3000))*1_000_000, Actor: c, Kind: "event", I: []int64{int64(c), int64(r.Intn(6)), int64(c*100 + k)}})
		}
	}
	for b := 0; b < r.Range(0, 12); b++ {
		p.Ops = append(p.Ops, sim.Op{At: int64(r.Intn(1200)) * 1_000_000, Actor: 80, Kind: "bcast", I: []int64{int64(b + 1)}})
	}
	p.Horizon = int64(8 * time.Second)
	// several handlers for one event name: the middleware stands before each of them
	p.SetB("dup_handlers", r.Bool(0.5))
}

type c12Reject struct {
	Code int    `json:"code"`
	Why  string `json:"why"`
}

func runC12(e *sim.Env) {
	p := e.Plan
	nc := int(p.C("clients"))
	nspName := "/"
	if p.B("custom_nsp") {
		nspName = "/admin"
	}
	var mws []sim.Op
	for _, op := range p.Ops {
		if op.Kind == "mw" {
			mws = append(mws, op)
		}
	}
	w := world.New(e, world.NetConfigFromPlan(p))
	reg := w.NewSrvReg()
	var mu sync.Mutex
	type mwCall struct {
		mw, client int
		at, ret    int64
		listed     bool
		sid        sio.SocketID
	}
	var calls []*mwCall
	connRan := map[sio.SocketID]int64{}
	sidOfClient := map[int][]sio.SocketID{}
	type evRec struct {
		what string // mw | handler | error
		name string
		args string
		at   int64
	}
	evLog := map[sio.SocketID][]evRec{} // per server socket
	var srv *sio.Server
	clientOf := func(auth json.RawMessage) int {
		var a struct {
			C *int `json:"c"`
		}
		json.Unmarshal(auth, &a)
		if a.C == nil {
			return -1
		}
		return *a.C
	}
	expectReject := func(c int) (int, sim.Op) {
		for i, m := range mws {
			if m.Int(2)&(1<<c) != 0 {
				return i, m
			}
		}
		return -1, sim.Op{}
	}
	rejection := func(m sim.Op, c int) any {
		switch m.Int(3) {
		case 0:
			return fmt.Errorf("denied-%d-by-%d", c, m.Int(0))
		case 1:
			return fmt.Sprintf("nope-%d-by-%d", c, m.Int(0))
		default:
			return &c12Reject{Code: 400 + c, Why: fmt.Sprintf("mw%d", m.Int(0))}
		}
	}
	configure := func(s *sio.Server) {
		n := s.Of(nspName)
		reg.Watch(n)
		for _, m := range mws {
			m := m
			n.Use(func(socket sio.ServerSocket, h *sio.Handshake) any {
				c := clientOf(h.Auth)
				call := &mwCall{mw: int(m.Int(0)), client: c, at: e.Now(), sid: socket.ID()}
				// not yet admitted: must not be listed
				for _, x := range n.Sockets() {
					if x.ID() == socket.ID() {
						call.listed = true
					}
				}
				mu.Lock()
				calls = append(calls, call)
				sidOfClient[c] = append(sidOfClient[c], socket.ID())
				mu.Unlock()
				if m.Int(4) == 1 {
					socket.Join(sio.Room(fmt.Sprintf("mwroom%d", m.Int(0))))
				}
				if d := m.Int(1); d > 0 {
					time.Sleep(time.Duration(d) * time.Millisecond)
				}
				call.ret = e.Now()
				if c >= 0 && m.Int(2)&(1<<c) != 0 {
					return rejection(m, c)
				}
				return nil
			})
		}
	}
	reg.OnNew = func(s *world.SrvSock) {
		mu.Lock()
		connRan[s.Socket.ID()] = e.Now()
		mu.Unlock()
		cIdx := s.Socket.ID()
		s.Socket.Use(func(name string, v ...any) error {
			mu.Lock()
			evLog[cIdx] = append(evLog[cIdx], evRec{what: "mw", name: name, args: fmt.Sprint(v), at: e.Now()})
			mu.Unlock()
			if name == "bad" {
				return errors.New("event rejected")
			}
			if name == "cont" && strings.Contains(fmt.Sprint(v), "-") {
				return errors.New("event rejected for its content")
			}
			return nil
		})
		s.Socket.OnError(func(err error) {
			mu.Lock()
			evLog[cIdx] = append(evLog[cIdx], evRec{what: "error", name: err.Error(), at: e.Now()})
			mu.Unlock()
		})
		rec := func(name string, args ...any) {
			mu.Lock()
			evLog[cIdx] = append(evLog[cIdx], evRec{what: "handler", name: name, args: fmt.Sprint(args), at: e.Now()})
			mu.Unlock()
		}
		s.Socket.OnEvent("str", func(a string, n int) { rec("str", a, n) })
		s.Socket.OnEvent("num", func(n int, a string) { rec("num", n, a) })
		s.Socket.OnEvent("ackd", func(a string, n int, ack func(int)) { rec("ackd", a, n); ack(n) })
		s.Socket.OnEvent("bad", func(a string, n int) { rec("bad", a, n) })
		s.Socket.OnEvent("cont", func(a string, n int) { rec("cont", a, n) })
		if p.B("dup_handlers") {
			s.Socket.OnEvent("str", func(a string, n int) { rec("str", a, n) })
			s.Socket.OnEvent("bad", func(a string, n int) { rec("bad", a, n) })
			s.Socket.OnceEvent("bad", func(a string, n int) { rec("bad", a, n) })
			s.Socket.OnEvent("cont", func(a string, n int) { rec("cont", a, n) })
			s.Socket.OnEvent("cont", func(a string, n int) { rec("cont", a, n) })
		}
	}
	srv = w.StartServer(world.ServerOpts{PingInterval: 25 * time.Second, PingTimeout: 20 * time.Minute, UpgradeTimeout: 20 * time.Minute, Configure: configure})

	clients := make([]*world.SioClient, nc)
	gotB := make([][]struct {
		id int
		at int64
	}, nc)
	for c := 0; c < nc; c++ {
		c := c
		clients[c] = w.NewSioClient(c, nspName, world.ClientOpts{Transports: world.Transports(p.C("tr")), NoReconnection: true, UpgradeTimeout: 20 * time.Minute}, &sio.ClientSocketConfig{Auth: map[string]any{"c": c}})
		clients[c].Socket.OnEvent("b", func(id int) {
			mu.Lock()
			gotB[c] = append(gotB[c], struct {
				id int
				at int64
			}{id, e.Now()})
			mu.Unlock()
		})
	}
	type bc struct {
		id       int
		inv, ret int64
	}
	var bcs []*bc
	type emitted struct {
		c    int
		kind int64
		n    int
		at   int64
	}
	var emits []emitted
	base := e.Now()
	byActor := map[int][]sim.Op{}
	for _, op := range p.Ops {
		if op.Kind != "mw" {
			byActor[op.Actor] = append(byActor[op.Actor], op)
		}
	}
	actors := []int{}
	for a := range byActor {
		actors = append(actors, a)
	}
	sort.Ints(actors)
	for _, a := range actors {
		a := a
		ops := byActor[a]
		e.Go(func() {
			for _, op := range ops {
				e.SleepUntil(base + op.At)
				switch op.Kind {
				case "connect":
					clients[op.Int(0)].Socket.Connect()
				case "bcast":
					b := &bc{id: int(op.Int(0)), inv: e.Now()}
					srv.Of(nspName).Emit("b", b.id)
					b.ret = e.Now()
					mu.Lock()
					bcs = append(bcs, b)
					mu.Unlock()
				case "event":
					c := int(op.Int(0))
					if !clients[c].Socket.Connected() {
						continue
					}
					n := int(op.Int(2))
					mu.Lock()
					emits = append(emits, emitted{c: c, kind: op.Int(1), n: n, at: e.Now()})
					mu.Unlock()
					switch op.Int(1) {
					case 0:
						clients[c].Socket.Emit("str", fmt.Sprintf("s%d", n), n)
					case 1:
						clients[c].Socket.Emit("num", n, fmt.Sprintf("s%d", n))
					case 2:
						clients[c].Socket.Emit("ackd", fmt.Sprintf("s%d", n), n, func(int) {})
					case 3:
						clients[c].Socket.Emit("bad", fmt.Sprintf("s%d", n), n)
					case 4:
						// the client asks for an acknowledgement, the handler does not take one
						clients[c].Socket.Emit("str", fmt.Sprintf("s%d", n), n, func() {})
					default:
						// rejected for its content (the last argument), emitted with an acknowledgement callback
						clients[c].Socket.Emit("cont", fmt.Sprintf("s%d", n), -n-1, func() {})
					}
				}
			}
		})
	}
	time.Sleep(time.Duration(p.Horizon))
	e.StopStalls()
	time.Sleep(time.Second)

	// ---- oracle
	mu.Lock()
	defer mu.Unlock()
	nsp := srv.Of(nspName)
	rejected, admitted, duringChain, evRejected := 0, 0, 0, 0
	for c := 0; c < nc; c++ {
		ri, rm := expectReject(c)
		var mine []*mwCall
		for _, cl := range calls {
			if cl.client == c {
				mine = append(mine, cl)
			}
		}
		sort.SliceStable(mine, func(i, j int) bool { return mine[i].at < mine[j].at })
		wantN := len(mws)
		if ri >= 0 {
			wantN = ri + 1
		}
		var order []int
		for _, cl := range mine {
			order = append(order, cl.mw)
		}
		var wantOrder []int
		for i := 0; i < wantN; i++ {
			wantOrder = append(wantOrder, i)
		}
		sig := fmt.Sprintf("nsp=%s", nspName)
		e.Check()
		connected := clients[c].Count("connect") > 0
		connErrs := []string{}
		for _, ev := range clients[c].Events() {
			if ev.Kind == "connect_error" {
				connErrs = append(connErrs, ev.Reason)
			}
		}
		if !connected && len(connErrs) == 0 {
			e.Violate("C12/no-answer", sig, "client %d got neither connect nor connect_error (middleware calls %v)", c, order)
			continue
		}
		if fmt.Sprint(order) != fmt.Sprint(wantOrder) {
			cls := "C12/chain-order"
			if len(order) > len(wantOrder) {
				cls = "C12/chain-continued-after-rejection"
			}
			e.Violate(cls, sig, "client %d: middlewares ran %v, registration order with the first rejection at %d gives %v", c, order, ri, wantOrder)
		}
		for _, cl := range mine {
			if cl.listed {
				e.Violate("C12/listed-before-acceptance", sig, "client %d: while middleware %d was running its socket %s was already in Namespace.Sockets()", c, cl.mw, cl.sid)
			}
		}
		chainEnd := int64(0)
		for _, cl := range mine {
			chainEnd = max64(chainEnd, cl.ret)
		}
		if ri >= 0 {
			rejected++
			want := ""
			switch v := rejection(rm, c).(type) {
			case error:
				want = v.Error()
			case string:
				want = v
			case *c12Reject:
				want = fmt.Sprintf("map[code:%d why:%s]", v.Code, v.Why)
			}
			if connected {
				e.Violate("C12/rejected-but-connected", sig, "client %d was rejected by middleware %d and still got a connect event", c, ri)
			}
			if len(connErrs) != 1 || connErrs[0] != want {
				e.Violate("C12/connect-error-payload", fmt.Sprintf("%s form=%d", sig, rm.Int(3)), "client %d: connect_error payloads %q, the rejecting middleware returned %q", c, connErrs, want)
			}
			for _, sid := range sidOfClient[c] {
				if _, ran := connRan[sid]; ran {
					e.Violate("C12/rejected-but-connection-handler-ran", sig, "client %d (rejected): the connection handler ran for its socket %s", c, sid)
				}
				for _, x := range nsp.Sockets() {
					if x.ID() == sid {
						e.Violate("C12/rejected-but-listed", sig, "client %d (rejected): socket %s is in Namespace.Sockets()", c, sid)
					}
				}
				if rooms, ok := nsp.Adapter().SocketRooms(sid); ok && rooms.Cardinality() > 0 {
					e.Violate("C12/rejected-but-in-rooms", sig, "client %d (rejected by middleware %d): its socket %s still belongs to rooms %v", c, ri, sid, rooms.ToSlice())
				}
				for _, m := range mws {
					room := sio.Room(fmt.Sprintf("mwroom%d", m.Int(0)))
					if nsp.Adapter().Sockets(mapset.NewSet(room)).Contains(sid) {
						e.Violate("C12/rejected-but-in-rooms", sig, "room %s still contains the rejected socket %s", room, sid)
					}
				}
			}
			if len(gotB[c]) > 0 {
				e.Violate("C12/broadcast-reached-rejected", sig, "client %d was rejected and still received broadcasts %v", c, gotB[c])
			}
		} else {
			admitted++
			if !connected || len(connErrs) > 0 {
				e.Violate("C12/accepted-but-not-connected", sig, "client %d passed every middleware: connect=%v connect_error=%q", c, connected, connErrs)
			}
			for _, g := range gotB[c] {
				for _, b := range bcs {
					if b.id == g.id && len(mine) > 0 && b.ret < chainEnd-e.StallsOverlapping(b.inv, chainEnd) {
						e.Violate("C12/broadcast-before-acceptance", sig, "client %d received broadcast #%d, whose Emit returned at t=%d, before its middleware chain finished at t=%d", c, g.id, b.ret, chainEnd)
					}
				}
			}
		}
		for _, b := range bcs {
			if len(mine) > 0 && b.inv >= mine[0].at && b.ret <= chainEnd {
				duringChain++
			}
		}
		// event middlewares
		log := evLog[clients[c].Socket.ID()]
		for _, em := range emits {
			if em.c != c {
				continue
			}
			name := []string{"str", "num", "ackd", "bad", "str", "cont"}[em.kind]
			var args string
			switch em.kind {
			case 1:
				args = fmt.Sprint([]any{em.n, fmt.Sprintf("s%d", em.n)})
			case 5:
				args = fmt.Sprint([]any{fmt.Sprintf("s%d", em.n), -em.n - 1})
			default:
				args = fmt.Sprint([]any{fmt.Sprintf("s%d", em.n), em.n})
			}
			mwAt, hAt := int64(-1), int64(-1)
			mwName, mwArgs := "", ""
			for _, r := range log {
				if r.what == "mw" && strings.Contains(r.args, fmt.Sprintf("s%d ", em.n)) || r.what == "mw" && strings.Contains(r.args, fmt.Sprintf(" s%d", em.n)) || r.what == "mw" && r.name == fmt.Sprintf("s%d", em.n) {
					if mwAt < 0 {
						mwAt, mwName, mwArgs = r.at, r.name, r.args
					}
				}
				if r.what == "handler" && r.name == name && r.args == args {
					hAt = r.at
				}
			}
			e.Check()
			esig := fmt.Sprintf("event %s", name)
			if mwAt < 0 {
				e.Violate("C12/event-middleware-skipped", esig, "client %d emitted %s%s: the socket's event middleware never saw it (log %v)", c, name, args, log)
				continue
			}
			if mwName != name {
				e.Violate("C12/event-middleware-wrong-name", esig, "client %d emitted event %q with arguments %s: the event middleware was called with name %q", c, name, args, mwName)
			}
			// the arguments: all of them (a handler with an acknowledgement function adds its placeholder)
			if mwArgs != args && !(em.kind == 2 && strings.HasPrefix(mwArgs, strings.TrimSuffix(args, "]"))) {
				e.Violate("C12/event-middleware-wrong-arguments", esig, "client %d emitted %s%s: the event middleware was called with the arguments %s", c, name, args, mwArgs)
			}
			if name == "bad" || name == "cont" {
				evRejected++
				if hAt >= 0 {
					e.Violate("C12/rejected-event-reached-handler", esig, "client %d: event %q was rejected by the event middleware and its handler still ran", c, name)
				}
			} else if hAt < 0 {
				e.Violate("C12/accepted-event-lost", esig, "client %d: event %s%s passed the event middleware and never reached its handler (log %v)", c, name, args, log)
			} else if hAt < mwAt {
				e.Violate("C12/handler-before-middleware", esig, "client %d: handler of %s ran at t=%d before the event middleware at t=%d", c, name, hAt, mwAt)
			}
		}
	}
	if (rejected > 0 && admitted > 0) || duringChain > 0 || evRejected > 0 {
		e.NonTrivial()
	}
	e.Shape(fmt.Sprintf("nsp%s mw%d c%d rej%d", nspName, len(mws), nc, rejected))
	e.Sample = map[string]any{"namespace": nspName, "middlewares": len(mws), "clients": nc, "rejected": rejected, "admitted": admitted, "broadcasts_during_a_chain": duringChain, "events": len(emits)}
}
