package props

import (
	"encoding/json"
	"fmt"
	"math"
	"sort"
	"strings"
	"sync"
	"time"

	sio "github.com/karagenc/socket.io-go"
	eio "github.com/karagenc/socket.io-go/engine.io"
	"nhooyr.io/websocket"

	"verif/dst/sim"
	"verif/dst/world"
)

// C15 — clients reconnect with bounded back-off and deliver what was emitted offline.
//
// One plan = reconnection settings, an outage (refused dials / black-holed dials / server crash and
// restart with empty memory / flapping) and emits of three kinds placed before, during and after it.

func init() {
	Register(&Property{
		ID: "C15", Title: "Clients reconnect with bounded back-off and deliver what was emitted offline",
		Level: "exploration",
		Modes: []Mode{{Name: "proto", Weight: 2}, {Name: "sio", Weight: 1}},
		Gen:   genC15, Run: runC15, Enum: enumC15,
		QuickRuns: 5000, ThoroughRuns: 320000,
		Rule: "plan = (ReconnectionAttempts 0..5, ReconnectionDelay in {50,100,500} ms, ReconnectionDelayMax in {1x,2x,10x}, jitter in {0,0.3,0.5,1}, outage kind refuse|dial-blackhole|crash-restart|flapping, outage start and length from 0.2x to 3x the sum of the back-off delays, 0..20 emits of kind plain|volatile|ack at instants before/during/after the outage, transport, network and stall parameters) from VERIF_SEED; " +
			"non-trivial = at least two reconnection attempts failed and an emit was made while the socket was disconnected; distinct = distinct history digest",
		Assumptions: []string{
			"delays are measured on the fake clock between the manager's reconnect_error / close event and the next reconnect_attempt event, with the injected stalls overlapping that interval as slack",
			"an emit counts as 'while disconnected' when the whole call lies between the socket's disconnect event and the manager's next open event; emits in the connect-pending window or overlapping a transition are held to at-most-once",
			"a dial into a black hole ends with the simulated kernel's connect time-out (20 s in these worlds)",
		},
		Real: commonReal, Stub: commonStub,
	})
}

func genC15(p *sim.Plan, r *sim.Rand, tier string) {
	world.DrawNet(p, r)
	if p.C("lat_us") > 2000 {
		p.Set("lat_us", 2000)
		p.Set("jit_us", 300)
	}
	p.Set("tr", int64(r.Intn(3)))
	p.Stall = DrawStall(r, 100_000_000, "client_manager", "client_socket.go", "backoff.go")
	if p.Stall.MaxNs > 5_000_000 {
		p.Stall.MaxNs = 5_000_000
	}
	att := int64(r.Intn(6))
	d := []int64{50, 100, 500}[r.Intn(3)]
	mx := d * []int64{1, 2, 10}[r.Intn(3)]
	p.Set("attempts", att)
	p.Set("delay_ms", d)
	p.Set("max_ms", mx)
	p.Set("jitter_pct", []int64{0, 30, 50, 100}[r.Intn(4)])
	p.Set("outage", int64(r.Intn(4))) // 0 refuse, 1 dial-blackhole, 2 crash-restart, 3 flapping
	p.Set("react_cut_ns", -1)
	if p.Mode == "proto" && r.Bool(0.25) {
		// reactive flap: the connection is cut again right when the CONNECT reply of the first
		// reconnection reaches the client (zero latency: the reply arrives at the instant it is written)
		p.Set("outage", 0)
		p.Set("lat_us", 0)
		p.Set("jit_us", 0)
		p.Set("react_cut_ns", []int64{0, 1, 100, 10_000, 1_000_000}[r.Intn(5)])
		p.Stall = DrawStall(r, 100_000_000)
		p.Stall.Focus = []string{"client_socket.go", "client_manager.go"}
		p.Stall.SitePct = 100
		p.Stall.RatePPM = []int{100000, 300000}[r.Intn(2)]
		p.Stall.MaxNs = []int64{1000, 100_000, 5_000_000}[r.Intn(3)]
	}
	if p.Mode == "sio" && r.Bool(0.5) {
		// the admission of the socket and its connection handlers against the client's buffered events
		p.Stall = DrawStall(r, 100_000_000)
		p.Stall.Focus = []string{"namespace.go", "server_socket.go", "server_conn.go", "store.go", "ordered_runner.go"}
		p.Stall.SitePct = 100
		p.Stall.RatePPM = []int{100000, 300000}[r.Intn(2)]
		p.Stall.MaxNs = []int64{100_000, 5_000_000}[r.Intn(2)]
	}
	// sum of the back-off delays of the configured attempts (5 if infinite)
	n := att
	if n == 0 {
		n = 5
	}
	sum := int64(0)
	for k := int64(0); k < n; k++ {
		sum += min64(mx, d<<uint(k))
	}
	start := int64(r.Range(100, 600)) * 1_000_000
	length := sum * 1_000_000 * int64(r.Range(2, 30)) / 10
	if p.C("outage") == 1 {
		length += 25_000_000_000
	}
	if p.C("react_cut_ns") >= 0 {
		// make sure the scenario is reached: never give up, a short outage, emits made during it
		p.Set("attempts", 0)
		length = d * 1_000_000 * int64(r.Range(12, 25)) / 10
		for k := 0; k < r.Range(2, 4); k++ {
			p.Ops = append(p.Ops, sim.Op{At: start + r.I64n(length), Actor: 0, Kind: "emit", I: []int64{0, int64(r.Intn(2) * 2)}})
		}
	}
	p.Set("outage_start", start)
	p.Set("outage_len", length)
	for i := 0; i < r.Range(0, 20); i++ {
		var at int64
		switch r.Intn(4) {
		case 0:
			at = r.I64n(start)
		case 1:
			at = start + r.I64n(length)
		case 2:
			at = start + length + r.I64n(2_000_000_000)
		default:
			at = start + []int64{-1_000_000, 0, 1_000_000, length - 1_000_000, length, length + 1_000_000}[r.Intn(6)]
		}
		if at < 0 {
			at = 0
		}
		p.Ops = append(p.Ops, sim.Op{At: at, Actor: 0, Kind: "emit", I: []int64{0, int64(r.Intn(3))}})
	}
	// emits placed in the connect-pending window: offset after the k-th re-open of the manager
	for i := 0; i < r.Weighted([]int{1, 2, 2, 2}); i++ {
		off := int64(0)
		if r.Bool(0.7) {
			off = r.I64n(2*p.C("lat_us")*1000 + 200_000) // up to the arrival of the CONNECT reply
		}
		p.Ops = append(p.Ops, sim.Op{At: 1 << 60, Actor: 0, Kind: "emit_on_open", I: []int64{0, int64(r.Intn(3)), int64(r.Range(1, 2)), off}})
	}
	// emits made before the very first Connect call: buffered, delivered when the socket connects
	for i := 0; i < r.Weighted([]int{2, 1, 1}); i++ {
		p.Ops = append(p.Ops, sim.Op{At: -1, Actor: 0, Kind: "emit_early", I: []int64{0, int64(r.Intn(3)), 0, 0}})
	}
	sort.SliceStable(p.Ops, func(i, j int) bool { return p.Ops[i].At < p.Ops[j].At })
	for i := range p.Ops {
		p.Ops[i].I[0] = int64(i + 1)
	}
	p.Horizon = start + length + int64(40*time.Second)
	if p.C("outage") == 1 {
		p.Horizon += int64(30 * time.Second)
	}
}

func runC15(e *sim.Env) {
	p := e.Plan
	cfg := world.NetConfigFromPlan(p)
	cfg.DialTimeoutNs = int64(20 * time.Second)
	w := world.New(e, cfg)
	var mu sync.Mutex
	type recv struct {
		id   int
		at   int64
		seq  int
		gen  int
		kind string
	}
	var got []recv
	gen := 0
	wireSeq := 0
	// The server is a protocol-level endpoint (the repository's Engine.IO server, a hand-written
	// Socket.IO layer): arrival order is the order on the wire, not the order in which a
	// Socket.IO server's per-packet goroutines happen to reach the handlers (that is C02's subject).
	var onConnectFrame func()
	outStartT := int64(1 << 62)
	connectSeen := map[string]bool{} // proto mode: sessions whose CONNECT frame has arrived
	record := func(name string, id int, g int) {
		mu.Lock()
		wireSeq++
		got = append(got, recv{id: id, at: e.Now(), seq: wireSeq, gen: g, kind: name})
		mu.Unlock()
		e.Log(200, "srv.recv", "%s #%d", name, id)
	}
	newServer := func() {
		g := gen
		if p.Mode == "sio" {
			// the library's own server: delivery is observed at handler entry (no order claim here)
			// the handlers are attached in the connection handler (the canonical usage): the buffered
			// events of the client arrive right behind its CONNECT packet and must find them
			reg := w.NewSrvReg()
			reg.OnNew = func(s *world.SrvSock) {
				for _, name := range []string{"plain", "volatile"} {
					name := name
					s.Socket.OnEvent(name, func(id int) { record(name, id, g) })
				}
				s.Socket.OnEvent("ack", func(id int, ack func(int)) { record("ack", id, g); ack(id) })
			}
			w.StartServer(world.ServerOpts{PingInterval: 25 * time.Second, PingTimeout: 20 * time.Minute, UpgradeTimeout: 20 * time.Minute, Configure: func(s *sio.Server) { reg.Watch(s.Of("/")) }})
			return
		}
		ps := w.StartProtoServer(&eio.ServerConfig{PingInterval: 25 * time.Second, PingTimeout: 20 * time.Minute, UpgradeTimeout: 20 * time.Minute,
			WebSocketAcceptOptions: &websocket.AcceptOptions{CompressionMode: websocket.CompressionDisabled}})
		ps.OnFrame = func(f world.ProtoFrame, side *world.EIOSide) {
			typ, _, _, _, payload, ok := world.ParseSIOHeader(f.Data)
			if ok && typ == 0 {
				mu.Lock()
				connectSeen[f.Session] = true
				mu.Unlock()
				if onConnectFrame != nil {
					onConnectFrame()
				}
			}
			if !ok || typ != 2 {
				return
			}
			var arr []any
			if json.Unmarshal(payload, &arr) != nil || len(arr) != 2 {
				e.Violate("C15/garbled-event", "wire", "unexpected event frame %q", f.Data)
				return
			}
			name, _ := arr[0].(string)
			idf, _ := arr[1].(float64)
			mu.Lock()
			seen := connectSeen[f.Session]
			mu.Unlock()
			if !seen {
				e.Violate("C15/event-before-connect", "wire "+name, "event %s #%d travelled before the CONNECT packet of its session: it was emitted while the socket was not connected and must wait for the connection", name, int(idf))
			}
			record(name, int(idf), g)
		}
	}
	newServer()
	d := world.Ms(p.C("delay_ms"))
	mx := world.Ms(p.C("max_ms"))
	jit := float32(p.C("jitter_pct")) / 100
	attempts := uint32(p.C("attempts"))
	cli := w.NewSioClient(0, "/", world.ClientOpts{Transports: world.Transports(p.C("tr")), UpgradeTimeout: 20 * time.Minute,
		ReconnectionAttempts: attempts, ReconnectionDelay: &d, ReconnectionDelayMax: &mx, RandomizationFactor: &jit}, nil)
	var acks []int
	type em struct {
		id             int
		kind           int64
		inv, ret       int64
		invSeq, retSeq int
	}
	var ems []*em
	emit := func(op sim.Op) {
		m := &em{id: int(op.Int(0)), kind: op.Int(1), inv: e.Now()}
		mu.Lock()
		ems = append(ems, m)
		mu.Unlock()
		var iid int
		iid, m.invSeq = e.Invoke(0, fmt.Sprintf("emit #%d kind=%d", m.id, m.kind))
		switch m.kind {
		case 0:
			cli.Socket.Emit("plain", m.id)
		case 1:
			cli.Socket.Volatile().Emit("volatile", m.id)
		default:
			cli.Socket.Emit("ack", m.id, func(id int) { mu.Lock(); acks = append(acks, id); mu.Unlock() })
		}
		mu.Lock()
		m.ret = e.Now()
		m.retSeq = e.Return(0, iid, "emit")
		mu.Unlock()
	}
	startT := e.Now()
	for _, op := range p.Ops {
		if op.Kind == "emit_early" {
			emit(op)
		}
	}
	lastFaultEnd := int64(1 << 62) // until known
	reactDone := false
	onConnectFrame = func() {
		// (called by the protocol-level server for every CONNECT frame)
		mu.Lock()
		skip := p.C("react_cut_ns") < 0 || reactDone || e.Now() < outStartT
		if !skip {
			reactDone = true
		}
		mu.Unlock()
		if skip {
			return
		}
		eps := time.Duration(p.C("react_cut_ns"))
		e.Go(func() {
			time.Sleep(eps)
			w.Net.Apply(sim.Fault{Kind: "refuse", Target: "c0*"})
			w.Net.Apply(sim.Fault{Kind: "cut", Target: "c0*"})
			time.Sleep(time.Duration(p.C("delay_ms")) * time.Millisecond / 2)
			w.Net.Apply(sim.Fault{Kind: "heal", Target: "*"})
			mu.Lock()
			lastFaultEnd = e.Now()
			mu.Unlock()
		})
	}
	cli.Socket.Connect()
	if !world.WaitUntil(20*time.Second, func() bool { return cli.Socket.Connected() }) {
		e.Violate("C15/connect-failed", "setup", "no initial connection")
		return
	}
	time.Sleep(50 * time.Millisecond)
	base := e.Now()
	outStart, outEnd := base+p.C("outage_start"), base+p.C("outage_start")+p.C("outage_len")
	mu.Lock()
	outStartT = outStart
	mu.Unlock()
	kind := p.C("outage")
	e.Go(func() {
		e.SleepUntil(outStart)
		switch kind {
		case 0, 3:
			w.Net.Apply(sim.Fault{Kind: "refuse", Target: "c0*"})
			w.Net.Apply(sim.Fault{Kind: "cut", Target: "c0*"})
		case 1:
			w.Net.Apply(sim.Fault{Kind: "dial-blackhole", Target: "c0*"})
			w.Net.Apply(sim.Fault{Kind: "cut", Target: "c0*"})
		case 2:
			w.StopListener()
			w.Net.Apply(sim.Fault{Kind: "cut", Target: "c0*"})
		}
		if kind == 3 {
			// flapping: reachable for an instant in the middle, then gone again
			mid := outStart + (outEnd-outStart)/2
			e.SleepUntil(mid)
			w.Net.Apply(sim.Fault{Kind: "heal", Target: "*"})
			time.Sleep(time.Duration(p.C("delay_ms")) * time.Millisecond / 2)
			w.Net.Apply(sim.Fault{Kind: "refuse", Target: "c0*"})
			w.Net.Apply(sim.Fault{Kind: "cut", Target: "c0*"})
		}
		e.SleepUntil(outEnd)
		switch kind {
		case 2:
			gen++
			newServer()
		default:
			w.Net.Apply(sim.Fault{Kind: "heal", Target: "*"})
		}
		e.Log(0, "healed", "")
		mu.Lock()
		if lastFaultEnd == 1<<62 || e.Now() > lastFaultEnd {
			lastFaultEnd = e.Now()
		}
		mu.Unlock()
	})
	opens := 0
	cli.OnLife = func(kind string) {
		if kind != "open" {
			return
		}
		mu.Lock()
		opens++
		k := opens
		mu.Unlock()
		for _, op := range p.Ops {
			if op.Kind == "emit_on_open" && int(op.Int(2)) == k {
				op := op
				e.Go(func() { time.Sleep(time.Duration(op.Int(3))); emit(op) })
			}
		}
	}
	e.Go(func() {
		for _, op := range p.Ops {
			if op.Kind != "emit" {
				continue
			}
			e.SleepUntil(base + op.At)
			emit(op)
		}
	})
	time.Sleep(time.Duration(p.Horizon))
	e.StopStalls()

	// ---- oracle
	mu.Lock()
	defer mu.Unlock()
	evs := cli.Events()
	sig := fmt.Sprintf("outage=%d", kind)
	if pend := e.Pending(); len(pend) > 0 {
		e.Violate("C15/emit-blocked", sig, "Emit calls did not return: %v", pend)
	}
	// (a) back-off delays. Manager events are delivered by goroutines of their own: events of one
	// instant can be recorded in either order, so attempts and failures are paired by their index
	// within a reconnection cycle (close, attempt 1, error 1, attempt 2, ... , reconnect).
	failures, failedEvents, attemptEvents := 0, 0, 0
	gaveUpAt := int64(-1)
	type cycle struct {
		fails    []int64 // close time (or -1 when it cannot be told), then the reconnect_error times
		attempts []int64
	}
	// The events carry the attempt number: a cycle starts with attempt 1. A reconnect_error belongs to
	// the cycle that was running at its time; the close that started a cycle is the one recorded between
	// the previous attempt and this cycle's first one (a close handler that lagged behind its own first
	// attempt leaves that pair unmeasured).
	var cycles []*cycle
	var errs []int64
	prevClose := int64(-1) // the close recorded since the last attempt, if any
	for _, ev := range evs {
		switch ev.Kind {
		case "close":
			prevClose = ev.At
		case "reconnect_attempt":
			attemptEvents++
			if ev.Reason == "1" || len(cycles) == 0 {
				cycles = append(cycles, &cycle{fails: []int64{prevClose}})
			}
			prevClose = -1
			c := cycles[len(cycles)-1]
			c.attempts = append(c.attempts, ev.At)
		case "reconnect_error":
			failures++
			errs = append(errs, ev.At)
		case "reconnect_failed":
			failedEvents++
			gaveUpAt = ev.At
		}
	}
	sort.Slice(errs, func(i, j int) bool { return errs[i] < errs[j] })
	for i, c := range cycles {
		for _, t := range errs {
			if t >= c.attempts[0] && (i+1 == len(cycles) || t < cycles[i+1].attempts[0]) {
				c.fails = append(c.fails, t)
			}
		}
	}
	for _, c := range cycles {
		for k, at := range c.attempts {
			if k >= len(c.fails) || c.fails[k] < 0 || c.fails[k] > at {
				continue // no failure recorded for this attempt
			}
			e.Check()
			delay := at - c.fails[k]
			slack := e.StallsOverlapping(c.fails[k]-int64(10*time.Millisecond), at+int64(10*time.Millisecond))
			baseD := float64(d) * math.Pow(2, float64(k))
			lo := int64(math.Min(float64(mx), baseD*(1-float64(jit)))) - slack
			hi := int64(math.Min(float64(mx), baseD*(1+float64(jit)))) + slack
			if delay+slack <= 0 || delay > int64(mx)+slack {
				e.Violate("C15/delay-out-of-bounds", sig, "attempt %d of the cycle started %v after the previous failure; bounds (0, %v]", k+1, time.Duration(delay), mx)
			} else if delay < lo || delay > hi {
				e.Violate("C15/delay-outside-jitter-band", fmt.Sprintf("%s k=%d", sig, minInt(k, 1)), "attempt %d of the cycle started %v after the previous failure; ReconnectionDelay %v x 2^%d with jitter %.2f capped at %v gives [%v, %v]", k+1, time.Duration(delay), d, k, jit, mx, time.Duration(lo+slack), time.Duration(hi-slack))
			}
		}
	}
	if gaveUpAt >= 0 {
		for _, ev := range evs {
			if ev.Kind == "reconnect_attempt" && ev.At > gaveUpAt+e.StallsOverlapping(gaveUpAt-int64(10*time.Millisecond), ev.At) {
				// a later connection loss would start a new cycle; there is none after giving up
				e.Violate("C15/attempt-after-giving-up", sig, "reconnect_attempt at t=%d after reconnect_failed at t=%d", ev.At, gaveUpAt)
			}
		}
	}
	// (b) giving up
	e.Check()
	if failedEvents > 1 {
		e.Violate("C15/reconnect-failed-twice", sig, "reconnect_failed announced %d times", failedEvents)
	}
	if attempts > 0 && failedEvents == 1 && len(cycles) > 0 {
		// no attempt follows giving up, so the failures of the last cycle are the ones that led to it
		n := len(cycles[len(cycles)-1].fails) - 1
		if n != int(attempts) {
			e.Violate("C15/wrong-attempt-count", sig, "gave up (reconnect_failed) after %d failed attempts of the last cycle, ReconnectionAttempts=%d", n, attempts)
		}
	}
	if attempts == 0 && failedEvents > 0 {
		e.Violate("C15/gave-up-with-infinite-attempts", sig, "reconnect_failed although ReconnectionAttempts is 0 (infinite)")
	}
	// (c) reachable again -> connected again (unless it legitimately gave up)
	e.Check()
	connectedNow := cli.Socket.Connected()
	// (flapping cuts an established Engine.IO session a second time: net/http may absorb the cut by
	// retrying the poll on a fresh connection while the CONNECT reply travelling in the cut response
	// is gone. Engine.IO does not acknowledge poll payloads: the session lives on and the socket waits
	// for a reply that was lost on the wire - not a reconnection matter.)
	var lastOpen, lastClose int64 = -1, -1
	for _, ev := range evs {
		switch ev.Kind {
		case "open":
			lastOpen = ev.At
		case "close":
			lastClose = ev.At
		}
	}
	replyLost := kind == 3 && lastOpen > lastClose
	if gaveUpAt < 0 && !connectedNow && !replyLost {
		e.Violate("C15/never-reconnected", sig, "%v after the server became reachable again (t=%d) the client is not connected and has not given up; events: %s", time.Duration(e.Now()-outEnd), outEnd, tailEvents(evs, 8))
	}
	// (d) emits
	type window struct{ from, to int64 }
	var offline []window      // [disconnect event, next open event]: no Engine.IO connection at all
	var notConnected []window // [disconnect event, next connect event]: includes the connect-pending part
	var connected []window
	// (before the first connection the socket is as good as disconnected since before the run began)
	var lastDisc, lastDisc2, lastConn int64 = startT - int64(time.Second), startT - int64(time.Second), -1
	for _, ev := range evs {
		switch ev.Kind {
		case "connect":
			lastConn = ev.At
			if lastDisc2 != -1 {
				notConnected = append(notConnected, window{lastDisc2, ev.At})
				lastDisc2 = -1
			}
		case "disconnect":
			if lastConn >= 0 {
				connected = append(connected, window{lastConn, ev.At})
				lastConn = -1
			}
			lastDisc, lastDisc2 = ev.At, ev.At
		case "open":
			if lastDisc != -1 {
				offline = append(offline, window{lastDisc, ev.At})
				lastDisc = -1
			}
		}
	}
	endOfRun := e.Now()
	if lastConn >= 0 {
		connected = append(connected, window{lastConn, 1 << 62})
	}
	if lastDisc != -1 {
		offline = append(offline, window{lastDisc, 1 << 62})
	}
	if lastDisc2 != -1 {
		notConnected = append(notConnected, window{lastDisc2, 1 << 62})
	}
	in := func(ws []window, m *em, margin int64) int {
		for i, w := range ws {
			if m.inv >= w.from+margin && m.ret <= w.to-margin {
				return i
			}
		}
		return -1
	}
	// the connection that follows the emit must have lasted: a buffered event flushed into a
	// connection that is cut an instant later is an in-flight loss, not a buffering defect
	stableAfter := func(m *em) bool {
		for _, w := range connected {
			if w.from >= m.ret {
				return w.to-w.from >= int64(500*time.Millisecond)
			}
		}
		return false
	}
	count := map[int]int{}
	firstAt := map[int]int64{}
	for _, g := range got {
		count[g.id]++
		if _, ok := firstAt[g.id]; !ok {
			firstAt[g.id] = int64(g.seq)
		}
	}
	offlineEmits, pendingEmits := 0, 0
	margin := int64(2 * time.Millisecond)
	slackOf := func(m *em) int64 {
		return margin + e.StallsOverlapping(m.inv-int64(10*time.Millisecond), m.ret+int64(10*time.Millisecond))
	}
	for _, m := range ems {
		e.Check()
		n := count[m.id]
		kindName := []string{"plain", "volatile", "ack"}[m.kind]
		if n > 1 {
			e.Violate("C15/delivered-twice", sig+" "+kindName, "emit #%d (%s, t=%d) reached the server %d times", m.id, kindName, m.inv, n)
			continue
		}
		switch {
		case in(offline, m, slackOf(m)) >= 0:
			offlineEmits++
			if m.kind == 1 {
				if n > 0 {
					e.Violate("C15/volatile-delivered", sig, "volatile emit #%d made while the socket was disconnected (t=%d) was delivered", m.id, m.inv)
				}
			} else if n == 0 && connectedNow && gaveUpAt < 0 && stableAfter(m) {
				e.Violate("C15/offline-emit-lost", sig+" "+kindName, "emit #%d (%s) made while the socket was disconnected (t=%d) was never delivered although the client reconnected; events: %s", m.id, kindName, m.inv, tailEvents(evs, 6))
			}
		case in(notConnected, m, slackOf(m)) >= 0:
			// the connect-pending part: the Engine.IO connection is up, the CONNECT reply is not in yet
			pendingEmits++
			if m.kind != 1 && n == 0 && connectedNow && gaveUpAt < 0 && stableAfter(m) {
				e.Violate("C15/offline-emit-lost", sig+" pending "+kindName, "emit #%d (%s) made while the socket was waiting for its CONNECT reply (t=%d) was never delivered although the socket connected; events: %s", m.id, kindName, m.inv, tailEvents(evs, 6))
			}
		case in(connected, m, slackOf(m)+int64(100*time.Millisecond)) >= 0 &&
			(m.ret < outStart-int64(100*time.Millisecond) || connected[in(connected, m, slackOf(m)+int64(100*time.Millisecond))].from > lastFaultEnd):
			// (during the outage the client can believe for a while that it is connected: what it emits
			// into a dead connection is lost in flight. Only connections of a healthy network count:
			// before the outage, or established after the last fault ended.)
			// a connection that was up well before and well after the call (C01's business, asserted here
			// too: a send path that is wedged after a reconnection shows here)
			if n == 0 && m.kind != 1 && m.ret < endOfRun-int64(2*time.Second) {
				e.Violate("C15/online-emit-lost", sig+" "+kindName, "emit #%d (%s) made at t=%d on a socket that was connected from 100 ms before to 100 ms after the call was never delivered; events: %s", m.id, kindName, m.inv, tailEvents(evs, 6))
			}
		}
	}
	// emission order (one call returned before the next was invoked) among the non-volatile emits of
	// one not-connected window, observed on the wire
	if p.Mode != "sio" {
		for i, m1 := range ems {
			w1 := in(notConnected, m1, slackOf(m1))
			if w1 < 0 || m1.kind == 1 {
				continue
			}
			for _, m2 := range ems[i+1:] {
				if m2.kind == 1 || m1.retSeq == 0 || m1.retSeq >= m2.invSeq || in(notConnected, m2, slackOf(m2)) != w1 {
					continue
				}
				a1, ok1 := firstAt[m1.id]
				a2, ok2 := firstAt[m2.id]
				if ok1 && ok2 {
					e.Check()
					if a2 < a1 {
						e.Violate("C15/offline-order", sig, "emits made while not connected travelled out of order: #%d (emitted later) before #%d", m2.id, m1.id)
					}
				}
			}
		}
	}
	// acknowledgements: at most once each
	seenAck := map[int]bool{}
	for _, id := range acks {
		if seenAck[id] {
			e.Violate("C15/ack-twice", sig, "the acknowledgement of emit #%d ran twice", id)
		}
		seenAck[id] = true
	}
	if failures >= 2 && offlineEmits > 0 {
		e.NonTrivial()
	}
	e.Shape(fmt.Sprintf("%s %s att%d fail%d off%d pend%d", p.Mode, sig, attempts, failures, minInt(offlineEmits, 3), minInt(pendingEmits, 2)))
	e.Sample = map[string]any{"outage": []string{"refuse", "dial-blackhole", "crash-restart", "flapping"}[kind], "ReconnectionAttempts": attempts, "delay": d.String(), "max": mx.String(), "jitter": jit,
		"failed_attempts": failures, "reconnect_failed": failedEvents, "emits": len(ems), "emits_while_disconnected": offlineEmits, "emits_while_connect_pending": pendingEmits, "delivered": len(got), "connected_at_end": connectedNow}
}

func tailEvents(evs []world.LifeEvent, n int) string {
	if len(evs) > n {
		evs = evs[len(evs)-n:]
	}
	var out []string
	for _, ev := range evs {
		r := ev.Reason
		if len(r) > 40 {
			r = r[:40]
		}
		out = append(out, fmt.Sprintf("%s@%d(%s)", ev.Kind, ev.At, r))
	}
	return strings.Join(out, " ")
}

// enumC15: the back-off function over its parameter space (input enumeration).
func enumC15(tier string, seed uint64) []EnumResult {
	res := EnumResult{Name: "back-off calculator (VerifNewBackoff): min x max x jitter x attempt number incl. overflowing ones; every duration in (0, max]", Exhaustive: true}
	mins := []time.Duration{1, time.Millisecond, 100 * time.Millisecond, time.Second, time.Hour, math.MaxInt64 / 4}
	maxs := []time.Duration{1, time.Millisecond, 5 * time.Second, time.Hour, math.MaxInt64}
	jits := []float32{0, 0.1, 0.5, 0.99, 1}
	atts := []uint32{}
	for i := uint32(0); i <= 70; i++ {
		atts = append(atts, i)
	}
	atts = append(atts, 100, 1000, 1<<31, math.MaxUint32-1)
	seen := false
	for _, mn := range mins {
		for _, mx := range maxs {
			if mx < mn {
				continue
			}
			for _, j := range jits {
				b := sio.VerifNewBackoff(mn, mx, j)
				for _, a := range atts {
					for rep := 0; rep < 3; rep++ {
						b.SetAttempts(a)
						d := b.Duration()
						res.Cases++
						if (d <= 0 || d > mx) && !seen {
							seen = true
							res.Violations = append(res.Violations, sim.Violation{Class: "C15/delay-out-of-bounds", Sig: "backoff function", Detail: fmt.Sprintf("min=%v max=%v jitter=%v attempt=%d: duration %v is outside (0, max]", mn, mx, j, a, d)})
						}
						if b.Attempts() != a+1 && a != math.MaxUint32 && !seen {
							seen = true
							res.Violations = append(res.Violations, sim.Violation{Class: "C15/attempt-counter", Sig: "backoff function", Detail: fmt.Sprintf("attempt counter %d after duration() at %d", b.Attempts(), a)})
						}
					}
				}
			}
		}
	}
	sort.Slice(atts, func(i, j int) bool { return atts[i] < atts[j] })
	res.Samples = []string{"min=100ms max=5s jitter=0.5 attempt=3", "min=1h max=1h jitter=1 attempt=4294967294"}
	return []EnumResult{res}
}
