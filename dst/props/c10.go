package props

import (
	"encoding/json"
	"fmt"
	"reflect"
	"strconv"
	"strings"
	"sync"
	"time"

	sio "github.com/karagenc/socket.io-go"
	"github.com/karagenc/socket.io-go/parser"

	"verif/dst/sim"
	"verif/dst/world"
)

// C10 — no input from a peer can crash or wedge the Socket.IO decoder or the process.
//
// Modes:
//   server  a raw peer (polling POSTs or WebSocket messages) sends hostile Socket.IO frames to the
//           real server, interleaved with valid ones; an honest real client shares the server.
//   client  a raw WebSocket server sends hostile frames to the real Go client.
// A panic on a library goroutine kills the worker; the supervisor attributes the death to the plan
// (class C10/process-crash, signature = panic message + first repository frame).

func init() {
	Register(&Property{
		ID: "C10", Title: "No input from a peer can crash or wedge the Socket.IO decoder or the process",
		Level: "exploration",
		Modes: []Mode{{Name: "server", Weight: 5}, {Name: "client", Weight: 4}},
		Gen:   genC10, Run: runC10, Enum: enumC10,
		QuickRuns: 5000, ThoroughRuns: 240000,
		Rule: "[enumeration: besides panics, a complete packet - header plus the attachments it announces - must be answered with a packet or an error] plan = (transport of the raw peer, a sequence of 1..12 frames drawn from a grammar-aware hostile corpus (header mutations, attachment counts, placeholder numbers, truncated JSON, wrong frame kind, unknown acks, out-of-state packets) mixed with valid frames, network chunking/latency, stalls) from VERIF_SEED; " +
			"non-trivial = at least one hostile frame reached the decoder of an established Socket.IO socket and the honest connection was probed afterwards; distinct = distinct frame sequence x history digest",
		Assumptions: []string{
			"a process death is attributed to the plan that was running (one plan at a time per worker process)",
			"liveness is asserted for the honest connection and for new connections, not for the hostile connection itself (a peer that announces 10^18 attachments has wedged only itself)",
		},
		Real: commonReal, Stub: append([]string{"raw peers: net/http + nhooyr driven directly; raw WebSocket Socket.IO server written for the harness"}, commonStub...),
	})
}

// hostile corpus: Socket.IO packets (without the Engine.IO type byte).
var c10Corpus = []string{
	// namespace / header shapes
	"0/abc", "2/abc", "0/", "2/", "1/abc", "3/abc", "4/abc", "5/abc", "6/abc", "0/abc,", "2/abc,", "2/abc,[\"none\"]", "2/,[\"none\"]",
	"0", "1", "2", "3", "4", "5", "6", "7", "9", ":", "a", "", " ", "\x00", "2 ", "20", "29999999999999999999999[\"none\"]", "218446744073709551615[\"none\"]", "218446744073709551616[\"none\"]",
	// event payload shapes
	"2[", "2[]", "2]", "2{}", "2{", "2\"none\"", "2[\"none\"", "2[\"none\",", "2[\"none\",]", "2[null]", "2[1,2]", "2[[\"none\"]]", "2[\"\"]", "2[\"none\",\"\\", "2[\"none\\\"]", "2[\"no\\u00", "2[\"none\"]]]]",
	"2[\"typed\"]", "2[\"typed\",null]", "2[\"typed\",1]", "2[\"typed\",\"x\"]", "2[\"typed\",{\"_placeholder\":true,\"num\":0}]", "2[\"typed\",{}]", "2[\"typed\",[]]",
	"2[\"map\",1]", "2[\"map\",[]]", "2[\"map\",null]", "2[\"map\",{\"a\":{\"_placeholder\":true,\"num\":0}}]", "2[\"map\",{\"a\":{\"_placeholder\":true,\"num\":-5}}]",
	"2[\"struct\",1]", "2[\"struct\",\"x\"]", "2[\"struct\",{\"a\":\"notanumber\"}]", "2[\"struct\",{\"c\":{}}]", "2[\"struct\",null]",
	"2[\"any\",{\"_placeholder\":true,\"num\":0}]", "2[\"ack\",1]", "21[\"ack\",1]", "21[\"ack\",\"x\"]", "21[\"ack\"]", "2[\"ack\"]", "21[\"none\"]", "21[\"typed\",{\"_placeholder\":true,\"num\":0}]",
	// binary headers
	"5", "5-", "51", "51-", "5-[\"typed\"]", "5a-[\"typed\"]", "5-1-[\"typed\"]", "50-[\"typed\",{\"_placeholder\":true,\"num\":0}]", "51-[\"typed\",{\"_placeholder\":true,\"num\":0}]",
	"51-[\"typed\",{\"_placeholder\":true,\"num\":1}]", "51-[\"typed\",{\"_placeholder\":true,\"num\":-1}]", "51-[\"typed\",{\"_placeholder\":true,\"num\":-2}]", "51-[\"typed\",{\"_placeholder\":true,\"num\":999}]",
	"51-[\"typed\",{\"_placeholder\":true,\"num\":1e18}]", "51-[\"typed\",{\"_placeholder\":true,\"num\":\"0\"}]", "51-[\"typed\",{\"_placeholder\":true,\"num\":null}]", "51-[\"typed\",{\"_placeholder\":false,\"num\":0}]",
	"51-[\"typed\",{\"num\":0}]", "51-[\"typed\",{\"_placeholder\":true}]", "51-[\"typed\",\"str\"]", "51-[\"typed\",5]", "51-[\"none\"]", "51-[\"typed\"", "51-",
	"52-[\"typed\",{\"_placeholder\":true,\"num\":1}]", "52147483648-[\"typed\",{\"_placeholder\":true,\"num\":0}]", "51000000000000000000-[\"typed\",{\"_placeholder\":true,\"num\":0}]",
	"599999999999999999999999-[\"typed\"]", "5-5-[\"typed\"]", "51-/abc,[\"typed\",{\"_placeholder\":true,\"num\":0}]", "51-/abc", "51-1[\"ack\",{\"_placeholder\":true,\"num\":0}]",
	"51-[\"map\",{\"a\":{\"_placeholder\":true,\"num\":0}}]", "51-[\"map\",{\"a\":{\"_placeholder\":true,\"num\":-1}}]", "51-[\"map\",{\"a\":{\"_placeholder\":true,\"num\":-2}}]", "51-[\"map\",{\"a\":{\"_placeholder\":true,\"num\":7}}]",
	"51-[\"map\",{\"a\":{\"num\":0,\"_placeholder\":true}}]", "51-[\"map\",{\"a\":{\"num\":-3,\"_placeholder\":true}}]", "51-[\"any\",{\"_placeholder\":true,\"num\":0}]", "51-[\"any\",{\"_placeholder\":true,\"num\":-2}]",
	"51-[\"struct\",{\"a\":1,\"bin\":{\"_placeholder\":true,\"num\":0}}]", "51-[\"struct\",{\"bin\":{\"_placeholder\":true,\"num\":-2}}]", "51-[\"struct\",{\"bin\":{\"_placeholder\":true,\"num\":50}}]",
	// acks
	"3", "3[]", "31", "31[]", "3999[\"x\"]", "30[\"x\"]", "3[\"x\"]", "3-1[]", "31[", "6", "61-", "61-1[{\"_placeholder\":true,\"num\":0}]", "60-1[]", "61-999[{\"_placeholder\":true,\"num\":-2}]",
	// out-of-state control packets
	"0", "0{}", "0{\"a\":1}", "0[", "0\"x\"", "0/other,", "0/other,{}", "4", "4{\"message\":\"x\"}", "4\"x\"", "1", "1/other,", "1[", "0{\"pid\":\"x\",\"offset\":\"y\"}", "0{\"pid\":1}", "0[1]",
}

func genC10(p *sim.Plan, r *sim.Rand, tier string) {
	world.DrawNet(p, r)
	p.Stall = DrawStall(r, 200_000_000)
	p.Set("tr", int64(r.Intn(2))) // raw peer: 0 polling POSTs, 1 websocket (server mode)
	n := r.Range(1, 12)
	at := int64(0)
	for i := 0; i < n; i++ {
		var data string
		bin := int64(0)
		switch r.Intn(10) {
		case 0: // valid traffic in between
			data = []string{"2[\"none\"]", "2[\"any\",1]", "2[\"map\",{\"k\":1}]", "21[\"ack\",5]", "2[\"struct\",{\"a\":1}]"}[r.Intn(5)]
		case 1: // a binary frame (attachment, expected or not)
			bin = 1
			data = string(r.Bytes(r.Intn(20)))
		case 2: // procedural mutation: truncate / splice two corpus entries
			a, b := c10Corpus[r.Intn(len(c10Corpus))], c10Corpus[r.Intn(len(c10Corpus))]
			if len(a) > 0 {
				a = a[:r.Intn(len(a)+1)]
			}
			data = a + b
		case 3: // byte flip
			d := []byte(c10Corpus[r.Intn(len(c10Corpus))])
			if len(d) > 0 {
				const flips = "0123456-/,[]{}\"\\:an_ \x00\xff"
				d[r.Intn(len(d))] = flips[r.Intn(len(flips))]
			}
			data = string(d)
		default:
			data = c10Corpus[r.Intn(len(c10Corpus))]
		}
		p.Ops = append(p.Ops, sim.Op{At: at, Actor: 0, Kind: "frame", I: []int64{bin}, S: []string{strconv.Quote(data)}})
		if r.Bool(0.3) {
			at += int64(r.LogDur(1, 50*time.Millisecond))
		}
	}
	p.Horizon = at + int64(5*time.Second)
}

type c10Struct struct {
	A   int        `json:"a"`
	B   string     `json:"b"`
	C   []int      `json:"c"`
	Bin sio.Binary `json:"bin"`
}

func c10Register(sock interface{ OnEvent(string, any) }, hit func(string)) {
	sock.OnEvent("typed", func(b sio.Binary) { hit("typed") })
	sock.OnEvent("map", func(m map[string]any) { hit("map") })
	sock.OnEvent("any", func(v any) { hit("any") })
	sock.OnEvent("struct", func(s c10Struct) { hit("struct") })
	sock.OnEvent("none", func() { hit("none") })
	sock.OnEvent("ack", func(x int, ack func(string)) { hit("ack"); ack("ok") })
	sock.OnEvent("echo", func(x int, ack func(int)) { ack(x) })
}

func runC10(e *sim.Env) {
	if e.Plan.Mode == "client" {
		runC10Client(e)
		return
	}
	p := e.Plan
	w := world.New(e, world.NetConfigFromPlan(p))
	reg := w.NewSrvReg()
	var mu sync.Mutex
	hits := map[string]int{}
	hit := func(s string) { mu.Lock(); hits[s]++; mu.Unlock() }
	reg.OnNew = func(s *world.SrvSock) { c10Register(s.Socket, hit) }
	w.StartServer(world.ServerOpts{Configure: func(s *sio.Server) { reg.Watch(s.Of("/")); reg.Watch(s.Of("/abc")) }, ConnectTimeout: 10 * time.Second})

	// the honest connection
	honest := w.NewSioClient(1, "/", world.ClientOpts{Transports: []string{"polling", "websocket"}, NoReconnection: true}, nil)
	honest.Socket.Connect()
	if !world.WaitUntil(20*time.Second, func() bool { return honest.Socket.Connected() && len(reg.All()) >= 1 }) {
		e.Violate("C10/honest-connect-failed", "setup", "honest client did not connect")
		return
	}
	time.Sleep(100 * time.Millisecond)

	// the hostile peer: handshake, CONNECT to "/", then the scripted frames
	raw := w.NewRawPeer("r0")
	useWS := p.C("tr") == 1
	var ws *world.RawWS
	var sid string
	sendFrame := func(binary bool, data []byte) error {
		if useWS {
			if binary {
				return ws.Send(true, data, 1)
			}
			return ws.Send(false, append([]byte{'4'}, data...), 1)
		}
		body := append([]byte{'4'}, data...)
		if binary {
			body = []byte("b" + b64(data))
		}
		resp := raw.Post(sid, body, false)
		if resp.Err != nil {
			return resp.Err
		}
		if resp.Status != 200 {
			return fmt.Errorf("status %d", resp.Status)
		}
		return nil
	}
	if useWS {
		var err error
		ws, err = raw.DialWS("", -1)
		if err != nil {
			e.Violate("C10/raw-handshake-failed", "setup", "%v", err)
			return
		}
		sid = ws.HS.SID
	} else {
		hs, resp := raw.Handshake("")
		if hs == nil {
			e.Violate("C10/raw-handshake-failed", "setup", "status=%d err=%v", resp.Status, resp.Err)
			return
		}
		sid = hs.SID
	}
	if err := sendFrame(false, []byte("0")); err != nil {
		e.Violate("C10/raw-handshake-failed", "setup", "CONNECT: %v", err)
		return
	}
	world.WaitUntil(10*time.Second, func() bool { return len(reg.All()) >= 2 })
	time.Sleep(50 * time.Millisecond)
	base := e.Now()
	sent := 0
	for _, op := range p.Ops {
		e.SleepUntil(base + op.At)
		data, _ := strconv.Unquote(op.Str(0))
		err := sendFrame(op.Int(0) == 1, []byte(data))
		e.Log(0, "hostile", "bin=%d %q -> %v", op.Int(0), data, err)
		if err != nil {
			break // the server closed the hostile connection: a legitimate answer
		}
		sent++
	}
	time.Sleep(time.Duration(p.Horizon - (e.Now() - base)))
	e.StopStalls()

	// ---- oracle: the honest connection still works, and a new connection can be made
	e.Check()
	got := make(chan int, 1)
	honest.Socket.Emit("echo", 41, func(v int) { got <- v })
	select {
	case v := <-got:
		if v != 41 {
			e.Violate("C10/honest-wrong-reply", "honest", "echo(41) answered %d", v)
		}
	case <-time.After(20 * time.Second):
		e.Violate("C10/honest-connection-wedged", "honest", "after %d hostile frames from another peer, the honest connection's emit-with-ack got no answer within 20 s (client events: %v)", sent, honest.Events())
	}
	e.Check()
	fresh := w.NewSioClient(2, "/", world.ClientOpts{Transports: []string{"websocket"}, NoReconnection: true}, nil)
	fresh.Socket.Connect()
	if !world.WaitUntil(20*time.Second, func() bool { return fresh.Socket.Connected() }) {
		e.Violate("C10/server-wedged", "new-connection", "after %d hostile frames no new connection could be established within 20 s", sent)
	}
	if sent > 0 {
		e.NonTrivial()
	}
	var seq []string
	for _, op := range p.Ops {
		seq = append(seq, op.Str(0))
	}
	e.Shape(strings.Join(seq, "|"))
	e.Sample = map[string]any{"mode": "server", "raw_transport": map[bool]string{true: "websocket", false: "polling"}[useWS], "frames": seq, "frames_sent_before_close": sent, "handler_hits": hits}
}

func b64(b []byte) string {
	const tbl = "ABCDEFGHIJKLMNOPQRSTUVWXYZabcdefghijklmnopqrstuvwxyz0123456789+/"
	var sb strings.Builder
	for i := 0; i < len(b); i += 3 {
		var v uint32
		n := 0
		for j := 0; j < 3; j++ {
			v <<= 8
			if i+j < len(b) {
				v |= uint32(b[i+j])
				n++
			}
		}
		sb.WriteByte(tbl[v>>18&63])
		sb.WriteByte(tbl[v>>12&63])
		if n > 1 {
			sb.WriteByte(tbl[v>>6&63])
		} else {
			sb.WriteByte('=')
		}
		if n > 2 {
			sb.WriteByte(tbl[v&63])
		} else {
			sb.WriteByte('=')
		}
	}
	return sb.String()
}

func runC10Client(e *sim.Env) {
	p := e.Plan
	w := world.New(e, world.NetConfigFromPlan(p))
	rs := w.StartRawWSServer()
	var mu sync.Mutex
	hits := map[string]int{}
	hit := func(s string) { mu.Lock(); hits[s]++; mu.Unlock() }

	victim := w.NewSioClient(0, "/", world.ClientOpts{Transports: []string{"websocket"}, NoReconnection: true}, nil)
	c10Register(victim.Socket, hit)
	victim.Socket.Connect()
	if !world.WaitUntil(20*time.Second, func() bool { return victim.Socket.Connected() }) {
		e.Violate("C10/client-connect-failed", "setup", "client did not connect to the raw server: %v", victim.Events())
		return
	}
	sess := rs.All()[0]
	time.Sleep(20 * time.Millisecond)
	base := e.Now()
	sent := 0
	for _, op := range p.Ops {
		e.SleepUntil(base + op.At)
		data, _ := strconv.Unquote(op.Str(0))
		var err error
		if op.Int(0) == 1 {
			err = sess.Send(true, []byte(data))
		} else {
			err = sess.Send(false, append([]byte{'4'}, data...))
		}
		e.Log(0, "hostile", "bin=%d %q -> %v", op.Int(0), data, err)
		if err != nil {
			break
		}
		sent++
	}
	time.Sleep(time.Duration(p.Horizon - (e.Now() - base)))
	e.StopStalls()

	// ---- oracle: the client process is alive (we are here), the same manager is not wedged:
	// either the socket is still connected and answers an echo request from the server, or it was
	// closed and reported; a second client of the same process can connect.
	// The hostile party is this connection's own server, so the connection itself may legitimately
	// be stuck (announced attachments that never come). What must hold: the process is alive (we are
	// here), the client's API is not wedged, and another client in the same process can connect.
	e.Check()
	apiDone := make(chan struct{})
	go func() {
		victim.Socket.Emit("still-usable", 1)
		victim.Socket.Disconnect()
		close(apiDone)
	}()
	select {
	case <-apiDone:
	case <-time.After(20 * time.Second):
		e.Violate("C10/client-wedged", "client-api", "after %d hostile frames Emit/Disconnect on the client did not return within 20 s", sent)
	}
	e.Check()
	second := w.NewSioClient(3, "/", world.ClientOpts{Transports: []string{"websocket"}, NoReconnection: true}, nil)
	second.Socket.Connect()
	if !world.WaitUntil(20*time.Second, func() bool { return second.Socket.Connected() }) {
		e.Violate("C10/client-wedged", "second-client", "a second client in the same process could not connect afterwards")
	}
	if sent > 0 {
		e.NonTrivial()
	}
	var seq []string
	for _, op := range p.Ops {
		seq = append(seq, op.Str(0))
	}
	e.Shape("cli " + strings.Join(seq, "|"))
	e.Sample = map[string]any{"mode": "client", "frames": seq, "frames_sent_before_close": sent, "handler_hits": hits, "client_events": len(victim.Events())}
}

// enumC10: every string up to length L over the protocol alphabet into Parser.Add, then the decode
// closure for every handler signature family (input enumeration; panics are recovered and reported).
func enumC10(tier string, seed uint64) []EnumResult {
	alphabet := []byte("0125/,-[]{}\":\\_an ")
	maxLen := 4
	if tier == "thorough" {
		maxLen = 5
	}
	res := EnumResult{Name: fmt.Sprintf("Parser.Add + decode per signature family: every string of length <= %d over %q, each followed by 0..2 binary frames", maxLen, alphabet), Exhaustive: true}
	var rawMsg *json.RawMessage
	fams := [][]reflect.Type{
		{reflect.TypeOf(sio.Binary{})},
		{reflect.TypeOf(map[string]any{})},
		{reflect.TypeOf((*any)(nil))},
		{reflect.TypeOf(c10Struct{})},
		{},
		{reflect.TypeOf(0), reflect.TypeOf("")},
		{reflect.TypeOf(rawMsg)},
		// typed containers of Binary: the placeholder sits inside a map / slice / struct the handler declares
		{reflect.TypeOf(map[string]sio.Binary{})},
		{reflect.TypeOf(map[string]*sio.Binary{})},
		{reflect.TypeOf([]sio.Binary{})},
		{reflect.TypeOf(&c10Struct{})},
		{reflect.TypeOf(map[string]c10Struct{})},
		{reflect.TypeOf([]any{})},
		{reflect.TypeOf([]map[string]any{})},
		{reflect.TypeOf(map[string][]sio.Binary{})},
	}
	seen := map[string]bool{}
	try := func(frames [][]byte) {
		ps := refParser()
		var dec []parser.Decode
		func() {
			defer func() {
				if r := recover(); r != nil {
					k := "add:" + fmt.Sprint(r)
					if !seen[k] {
						seen[k] = true
						res.Violations = append(res.Violations, sim.Violation{Class: "C10/decoder-panic", Sig: "Parser.Add: " + stripNums(fmt.Sprint(r)), Detail: fmt.Sprintf("Parser.Add panicked on frames %q: %v", frames, r)})
					}
				}
			}()
			for _, f := range frames {
				ps.Add(f, func(h *parser.PacketHeader, ev string, d parser.Decode) { dec = append(dec, d) })
			}
		}()
		for _, d := range dec {
			for _, fam := range fams {
				res.Cases++
				func() {
					defer func() {
						if r := recover(); r != nil {
							k := "dec:" + fmt.Sprint(r)
							if !seen[k] {
								seen[k] = true
								res.Violations = append(res.Violations, sim.Violation{Class: "C10/decoder-panic", Sig: "decode: " + stripNums(fmt.Sprint(r)), Detail: fmt.Sprintf("decode(%v) panicked on frames %q: %v", fam, frames, r)})
							}
						}
					}()
					d(fam...)
				}()
			}
		}
	}
	// A complete packet - a header and as many further frames as it announces - yields a packet or an
	// error: a decoder that answers with neither is wedged (it takes every later frame of the connection
	// for an attachment and never reports anything).
	complete := func(s []byte) {
		n := 0
		if len(s) > 0 && (s[0] == '5' || s[0] == '6') {
			i := 1
			for ; i < len(s) && s[i] >= '0' && s[i] <= '9' && i < 4; i++ {
				n = n*10 + int(s[i]-'0')
			}
			if i == 1 || i >= len(s) || s[i] != '-' {
				return // no well-formed attachment count: nothing is announced
			}
		}
		defer func() { recover() }() // panics are reported by try
		ps := refParser()
		answered := false
		for k := 0; k <= n && !answered; k++ {
			f := s
			if k > 0 {
				f = []byte{7}
			}
			if err := ps.Add(f, func(*parser.PacketHeader, string, parser.Decode) { answered = true }); err != nil {
				answered = true
			}
		}
		res.Cases++
		if !answered && !seen["wedge"] {
			seen["wedge"] = true
			res.Violations = append(res.Violations, sim.Violation{Class: "C10/decoder-wedged", Sig: "complete packet without answer", Detail: fmt.Sprintf("Parser.Add(%q) followed by the %d attachment frame(s) it announces: no packet, no error", s, n)})
		}
	}
	buf := make([]byte, maxLen)
	var rec func(k int)
	rec = func(k int) {
		s := append([]byte(nil), buf[:k]...)
		res.Cases++
		try([][]byte{s})
		complete(s)
		if k > 0 && (s[0] == '5' || s[0] == '6') {
			try([][]byte{s, {1, 2, 3}})
			try([][]byte{s, {}, []byte("x")})
		}
		if k == maxLen {
			return
		}
		for _, c := range alphabet {
			buf[k] = c
			rec(k + 1)
		}
	}
	rec(0)
	// the grammar-aware corpus through the same funnel, with attachments
	valid := []string{
		`51-["bin",{"data":{"_placeholder":true,"num":0}}]`,
		`51-["bin",{"data":{"num":0,"_placeholder":true}}]`,
		`51-["bin",[{"_placeholder":true,"num":0}]]`,
		`51-["bin",{"a":[{"_placeholder":true,"num":0}]}]`,
		`51-["bin",{"a":{"data":{"_placeholder":true,"num":0},"n":1}}]`,
		`52-["bin",{"data":{"_placeholder":true,"num":1},"x":{"_placeholder":true,"num":0}}]`,
	}
	for _, c := range append(append([]string(nil), c10Corpus...), valid...) {
		complete([]byte(c))
		try([][]byte{[]byte(c)})
		try([][]byte{[]byte(c), {9, 9}})
		try([][]byte{[]byte(c), {9, 9}, {}})
	}
	res.Samples = []string{`"0/a"`, `"51-["`, `corpus: 51-["typed",{"_placeholder":true,"num":-2}] + attachment`}
	return []EnumResult{res}
}

func stripNums(s string) string {
	var b strings.Builder
	for _, r := range s {
		if r >= '0' && r <= '9' {
			b.WriteByte('#')
		} else {
			b.WriteRune(r)
		}
	}
	return b.String()
}
