package props

import (
	eio "github.com/karagenc/socket.io-go/engine.io"

	"verif/dst/sim"
)

func init() {
	sim.ResetFuncs = append(sim.ResetFuncs, eio.VerifResetBase64IDSeq)
}
