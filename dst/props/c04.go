package props

import (
	"fmt"
	"sort"
	"strconv"
	"strings"
	"sync"
	"time"

	"github.com/anishathalye/porcupine"
	mapset "github.com/deckarep/golang-set/v2"
	"github.com/karagenc/socket.io-go/adapter"

	"verif/dst/sim"
)

// C04 — a broadcast reaches exactly the sockets its rooms and exclusions select, once.
//
// Component rig: the real in-memory / session-aware adapter and the real BroadcastOperator behind the
// repository's own adapter.SocketStore / adapter.Socket interfaces: a recording store, and sockets whose
// Join / Leave / Disconnect call the adapter the way real sockets do.
// Modes:
//   seq     sequential history of membership operations and broadcasts against the reference model
//   matrix  (fixed plan) every membership matrix of 3 sockets x 3 rooms x every (T,E): 2^9 x 64 cases
//   live    real server sockets: application tasks join and leave while the sockets are disconnected from
//           either side or lose their connection; a disconnected socket must be in no room (c04live.go)
//   conc    membership tasks run while broadcasts are in flight (the adapter releases its mutex around
//           every callback), stalls on adapter_memory.go; interval semantics; never twice; membership
//           operations additionally checked for linearizability (porcupine)

func init() {
	Register(&Property{
		ID: "C04", Title: "A broadcast reaches exactly the sockets its rooms and exclusions select, once",
		Level: "exploration",
		Modes: []Mode{{Name: "seq", Weight: 5}, {Name: "conc", Weight: 5}, {Name: "live", Weight: 2}},
		Gen:   genC04, Run: runC04, Fixed: fixedC04,
		QuickRuns: 8000, ThoroughRuns: 600000,
		Rule: "plan = (adapter kind, 2..5 sockets, 2..4 rooms, history of join / leave / disconnect / SocketsJoin / SocketsLeave / DisconnectSockets / namespace broadcast (T,E) / socket broadcast (T,E) / operator reuse, sequential or spread over 2..5 tasks with timestamps, stall parameters focused on adapter_memory.go) from VERIF_SEED; " +
			"plus one fixed plan enumerating all 2^9 membership matrices of 3 sockets x 3 rooms x all 64 (T,E) pairs (exhaustive, counted separately); non-trivial = a broadcast had both a recipient and a non-recipient (seq) / a membership operation overlapped a broadcast (conc); distinct = distinct history digest",
		Assumptions: []string{
			"programs never leave a socket's own-id room: sender exclusion is defined through that room, here and in the reference implementation",
			"concurrent mode uses interval semantics: only sockets whose membership no operation touched during the broadcast have an exact expectation; all others may receive it 0 or 1 times, nobody twice",
		},
		Real: []string{"adapter.inMemoryAdapter, adapter.sessionAwareAdapter, adapter.BroadcastOperator, parser/json encoder (all of package adapter, built from /repo)"},
		Stub: append([]string{"SocketStore and Socket: recording implementations of the repository's interfaces (the rig); no network in this property's component modes"}, commonStub...),
	})
}

var c04Rooms = []string{"r0", "r1", "r2", "r3"}

func genC04(p *sim.Plan, r *sim.Rand, tier string) {
	if p.Mode == "live" {
		genC04Live(p, r)
		return
	}
	p.Set("session_aware", int64(r.Intn(2)))
	ns := r.Range(2, 5)
	nr := r.Range(2, 4)
	p.Set("sockets", int64(ns))
	p.Set("rooms", int64(nr))
	p.Stall = DrawStall(r, 300_000_000, "adapter_memory.go", "adapter_session_aware.go")
	mask := func() int64 { return int64(r.Intn(1 << nr)) }
	n := r.Range(5, 40)
	tasks := 1
	if p.Mode == "conc" {
		tasks = r.Range(2, 5)
	}
	at := int64(0)
	for i := 0; i < n; i++ {
		s := int64(r.Intn(ns))
		var op sim.Op
		switch r.Weighted([]int{6, 4, 1, 2, 2, 1, 6, 4, 1}) {
		case 0:
			op = sim.Op{Kind: "join", I: []int64{s, mask()}}
		case 1:
			op = sim.Op{Kind: "leave", I: []int64{s, int64(r.Intn(nr))}}
		case 2:
			op = sim.Op{Kind: "disconnect", I: []int64{s}}
		case 3:
			op = sim.Op{Kind: "socketsjoin", I: []int64{mask(), mask(), mask()}}
		case 4:
			op = sim.Op{Kind: "socketsleave", I: []int64{mask(), mask(), mask()}}
		case 5:
			op = sim.Op{Kind: "disconnectsockets", I: []int64{mask(), mask()}}
		case 6:
			op = sim.Op{Kind: "bcast", I: []int64{mask(), mask()}}
		case 7:
			op = sim.Op{Kind: "sbcast", I: []int64{s, mask(), mask()}}
		default:
			op = sim.Op{Kind: "reuse", I: []int64{mask(), mask()}}
		}
		if p.Mode == "conc" {
			op.Actor = r.Intn(tasks)
			op.At = at
			if r.Bool(0.5) {
				at += int64(r.LogDur(1, 2*time.Millisecond))
			}
		} else {
			op.At = int64(i) * 1_000_000
		}
		p.Ops = append(p.Ops, op)
	}
	if p.Mode == "conc" && r.Bool(0.25) {
		// Sockets that leave and come back (with the same ID, as a restored session does) while
		// broadcasts to everybody and to rooms are at work, with the adapter's lock hand-overs stalled:
		// every socket is reached once per broadcast.
		p.Ops = nil
		for s := 0; s < ns; s++ {
			p.Ops = append(p.Ops, sim.Op{Kind: "join", Actor: 0, At: 0, I: []int64{int64(s), mask() | 1}})
		}
		t := int64(2_000_000)
		for k := 0; k < r.Range(2, 5); k++ {
			p.Ops = append(p.Ops, sim.Op{Kind: "bcast", Actor: 1 + k%2, At: t, I: []int64{[]int64{0, 0, mask()}[r.Intn(3)], 0}})
			for j := 0; j < r.Range(1, 3); j++ {
				s := int64(r.Intn(ns))
				dt := r.I64n(300_000)
				p.Ops = append(p.Ops, sim.Op{Kind: "disconnect", Actor: 3, At: t + dt, I: []int64{s}},
					sim.Op{Kind: "join", Actor: 3, At: t + dt + r.I64n(200_000), I: []int64{s, mask() | 1}})
			}
			t += 3_000_000
		}
		p.Set("tasks_hint", 4)
		p.Stall = DrawStall(r, 300_000_000)
		p.Stall.Focus = []string{"adapter_memory.go"}
		p.Stall.SitePct = 100
		p.Stall.RatePPM = 300000
		p.Stall.MinNs = 50_000
		p.Stall.MaxNs = 1_000_000
		at = t
	}
	p.Horizon = at + int64(2*time.Second)
}

func fixedC04(tier string, seed uint64) []*sim.Plan {
	var out []*sim.Plan
	for sa := int64(0); sa < 2; sa++ {
		p := sim.NewPlan("C04", "matrix", seed, 4_000_000+int(sa))
		p.Set("session_aware", sa)
		p.Set("sockets", 3)
		p.Set("rooms", 3)
		p.Horizon = int64(time.Second)
		out = append(out, p)
	}
	return out
}

// ---- the rig

type c04Store struct {
	mu      sync.Mutex
	sockets map[adapter.SocketID]adapter.Socket
	recv    map[adapter.SocketID][]int64 // broadcast ids received per socket
	e       *sim.Env
}

func (s *c04Store) SendBuffers(sid adapter.SocketID, buffers [][]byte) bool {
	id := int64(-1)
	if len(buffers) > 0 {
		// 2["ev",<id>...]
		t := string(buffers[0])
		if i := strings.Index(t, `["ev",`); i >= 0 {
			rest := t[i+6:]
			j := 0
			for j < len(rest) && rest[j] >= '0' && rest[j] <= '9' {
				j++
			}
			id, _ = strconv.ParseInt(rest[:j], 10, 64)
		}
	}
	s.mu.Lock()
	_, ok := s.sockets[sid]
	if ok {
		s.recv[sid] = append(s.recv[sid], id)
	}
	s.mu.Unlock()
	return ok
}
func (s *c04Store) Get(sid adapter.SocketID) (adapter.Socket, bool) {
	s.mu.Lock()
	defer s.mu.Unlock()
	so, ok := s.sockets[sid]
	return so, ok
}
func (s *c04Store) GetAll() []adapter.Socket {
	s.mu.Lock()
	defer s.mu.Unlock()
	ids := make([]string, 0, len(s.sockets))
	for id := range s.sockets {
		ids = append(ids, string(id))
	}
	sort.Strings(ids)
	out := make([]adapter.Socket, len(ids))
	for i, id := range ids {
		out[i] = s.sockets[adapter.SocketID(id)]
	}
	return out
}
func (s *c04Store) Remove(sid adapter.SocketID) {
	s.mu.Lock()
	delete(s.sockets, sid)
	s.mu.Unlock()
}

type c04Socket struct {
	id    adapter.SocketID
	ad    adapter.Adapter
	store *c04Store
	onOp2 func(kind string, rooms []adapter.Room) (done func())
}

func (s *c04Socket) begin(kind string, rooms []adapter.Room) func() {
	if s.onOp2 == nil {
		return func() {}
	}
	return s.onOp2(kind, rooms)
}

func (s *c04Socket) ID() adapter.SocketID { return s.id }
func (s *c04Socket) Join(room ...adapter.Room) {
	done := s.begin("join", room)
	s.ad.AddAll(s.id, room)
	done()
}
func (s *c04Socket) Leave(room adapter.Room) {
	done := s.begin("leave", []adapter.Room{room})
	s.ad.Delete(s.id, room)
	done()
}
func (s *c04Socket) Emit(eventName string, v ...any) {}
func (s *c04Socket) op() *adapter.BroadcastOperator {
	return adapter.NewBroadcastOperator("/", s.ad, func(string) bool { return false }).Except(adapter.Room(s.id))
}
func (s *c04Socket) To(room ...adapter.Room) *adapter.BroadcastOperator { return s.op().To(room...) }
func (s *c04Socket) In(room ...adapter.Room) *adapter.BroadcastOperator { return s.op().To(room...) }
func (s *c04Socket) Except(room ...adapter.Room) *adapter.BroadcastOperator {
	return s.op().Except(room...)
}
func (s *c04Socket) Broadcast() *adapter.BroadcastOperator { return s.op() }
func (s *c04Socket) Disconnect(close bool) {
	// what serverSocket.onClose does: leave all rooms, leave the namespace's socket list
	done := s.begin("disconnect", nil)
	s.ad.DeleteAll(s.id)
	s.store.Remove(s.id)
	done()
}

func roomsOf(mask int64, nr int) []adapter.Room {
	var out []adapter.Room
	for i := 0; i < nr; i++ {
		if mask&(1<<i) != 0 {
			out = append(out, adapter.Room(c04Rooms[i]))
		}
	}
	return out
}

type c04Model struct {
	rooms map[adapter.SocketID]map[adapter.Room]bool // connected sockets only
}

func (m *c04Model) eligible(sid adapter.SocketID, T, E []adapter.Room) bool {
	rs, ok := m.rooms[sid]
	if !ok {
		return false
	}
	for _, r := range E {
		if rs[r] {
			return false
		}
	}
	if len(T) == 0 {
		return true
	}
	for _, r := range T {
		if rs[r] {
			return true
		}
	}
	return false
}

func c04NewRig(e *sim.Env, sessionAware bool, n int, _ any) (adapter.Adapter, *c04Store, []*c04Socket, *c04Model) {
	store := &c04Store{sockets: map[adapter.SocketID]adapter.Socket{}, recv: map[adapter.SocketID][]int64{}, e: e}
	var ad adapter.Adapter
	if sessionAware {
		ad = adapter.NewSessionAwareAdapterCreator(2*time.Minute)(store, refParser)
	} else {
		ad = adapter.NewInMemoryAdapterCreator()(store, refParser)
	}
	model := &c04Model{rooms: map[adapter.SocketID]map[adapter.Room]bool{}}
	var socks []*c04Socket
	for i := 0; i < n; i++ {
		id := adapter.SocketID(fmt.Sprintf("sock%d", i))
		s := &c04Socket{id: id, ad: ad, store: store}
		store.sockets[id] = s
		ad.AddAll(id, []adapter.Room{adapter.Room(id)}) // a socket joins the room named after its id on connect
		model.rooms[id] = map[adapter.Room]bool{adapter.Room(id): true}
		socks = append(socks, s)
	}
	return ad, store, socks, model
}

func runC04(e *sim.Env) {
	switch e.Plan.Mode {
	case "seq":
		runC04Seq(e)
	case "matrix":
		runC04Matrix(e)
	case "conc":
		runC04Conc(e)
	case "live":
		runC04Live(e)
	}
}

func nsOp(ad adapter.Adapter) *adapter.BroadcastOperator {
	return adapter.NewBroadcastOperator("/", ad, func(string) bool { return false })
}

func runC04Seq(e *sim.Env) {
	p := e.Plan
	nr := int(p.C("rooms"))
	ad, store, socks, model := c04NewRig(e, p.B("session_aware"), int(p.C("sockets")), nil)
	bid := int64(0)
	mixed := false
	check := func(desc string, id int64, want map[adapter.SocketID]bool) {
		e.Check()
		store.mu.Lock()
		defer store.mu.Unlock()
		yes, no := 0, 0
		for _, s := range socks {
			n := 0
			for _, x := range store.recv[s.id] {
				if x == id {
					n++
				}
			}
			switch {
			case want[s.id] && n == 0:
				e.Violate("C04/missed", "seq", "%s (#%d) did not reach %s although it is in a target room and in no excluded room; model rooms: %v", desc, id, s.id, model.rooms[s.id])
			case want[s.id] && n > 1:
				e.Violate("C04/duplicate", "seq", "%s (#%d) reached %s %d times", desc, id, s.id, n)
			case !want[s.id] && n > 0:
				e.Violate("C04/wrong-recipient", "seq", "%s (#%d) reached %s which it does not select (connected=%v rooms=%v)", desc, id, s.id, model.rooms[s.id] != nil, model.rooms[s.id])
			}
			if want[s.id] {
				yes++
			} else {
				no++
			}
		}
		if yes > 0 && no > 0 {
			mixed = true
		}
	}
	for _, op := range p.Ops {
		e.SleepUntil(op.At)
		e.Log(0, "op", "%s %v", op.Kind, op.I)
		switch op.Kind {
		case "join":
			s := socks[op.Int(0)]
			if model.rooms[s.id] == nil {
				continue // disconnected sockets do nothing
			}
			rs := roomsOf(op.Int(1), nr)
			s.Join(rs...)
			for _, r := range rs {
				model.rooms[s.id][r] = true
			}
		case "leave":
			s := socks[op.Int(0)]
			if model.rooms[s.id] == nil {
				continue
			}
			r := adapter.Room(c04Rooms[op.Int(1)])
			s.Leave(r)
			delete(model.rooms[s.id], r)
		case "disconnect":
			s := socks[op.Int(0)]
			if model.rooms[s.id] == nil {
				continue
			}
			s.Disconnect(false)
			delete(model.rooms, s.id)
			// a disconnected socket belongs to no room
			e.Check()
			if rooms, ok := ad.SocketRooms(s.id); ok {
				e.Violate("C04/disconnected-still-member", "seq", "SocketRooms(%s) after disconnect: %v", s.id, rooms.ToSlice())
			}
			if ad.Sockets(mapset.NewSet[adapter.Room]()).Contains(s.id) {
				e.Violate("C04/disconnected-still-member", "seq", "Sockets() still lists %s after disconnect", s.id)
			}
		case "socketsjoin", "socketsleave":
			T, E, R := roomsOf(op.Int(0), nr), roomsOf(op.Int(1), nr), roomsOf(op.Int(2), nr)
			o := nsOp(ad).To(T...).Except(E...)
			var hit []adapter.SocketID
			for _, s := range socks {
				if model.eligible(s.id, T, E) {
					hit = append(hit, s.id)
				}
			}
			if op.Kind == "socketsjoin" {
				o.SocketsJoin(R...)
				for _, id := range hit {
					for _, r := range R {
						model.rooms[id][r] = true
					}
				}
			} else {
				o.SocketsLeave(R...)
				for _, id := range hit {
					for _, r := range R {
						delete(model.rooms[id], r)
					}
				}
			}
		case "disconnectsockets":
			T, E := roomsOf(op.Int(0), nr), roomsOf(op.Int(1), nr)
			var hit []adapter.SocketID
			for _, s := range socks {
				if model.eligible(s.id, T, E) {
					hit = append(hit, s.id)
				}
			}
			nsOp(ad).To(T...).Except(E...).DisconnectSockets(false)
			for _, id := range hit {
				delete(model.rooms, id)
			}
		case "bcast":
			T, E := roomsOf(op.Int(0), nr), roomsOf(op.Int(1), nr)
			bid++
			want := map[adapter.SocketID]bool{}
			for _, s := range socks {
				want[s.id] = model.eligible(s.id, T, E)
			}
			nsOp(ad).To(T...).Except(E...).Emit("ev", bid)
			check(fmt.Sprintf("broadcast to %v except %v", T, E), bid, want)
		case "sbcast":
			s := socks[op.Int(0)]
			if model.rooms[s.id] == nil {
				continue
			}
			T, E := roomsOf(op.Int(1), nr), roomsOf(op.Int(2), nr)
			bid++
			want := map[adapter.SocketID]bool{}
			for _, x := range socks {
				want[x.id] = x.id != s.id && model.eligible(x.id, T, E)
			}
			s.Broadcast().To(T...).Except(E...).Emit("ev", bid)
			check(fmt.Sprintf("broadcast through %s to %v except %v", s.id, T, E), bid, want)
			store.mu.Lock()
			for _, x := range store.recv[s.id] {
				if x == bid {
					e.Violate("C04/sender-received", "seq", "a broadcast issued through %s reached %s itself", s.id, s.id)
				}
			}
			store.mu.Unlock()
		case "reuse":
			// operators are immutable: deriving from one must not change it
			T, E := roomsOf(op.Int(0), nr), roomsOf(op.Int(1), nr)
			base := nsOp(ad).To(T...)
			base.Except(E...)                              // discarded
			base.To(adapter.Room(c04Rooms[(op.Int(1))%4])) // discarded
			bid++
			want := map[adapter.SocketID]bool{}
			for _, s := range socks {
				want[s.id] = model.eligible(s.id, T, nil)
			}
			base.Emit("ev", bid)
			check(fmt.Sprintf("broadcast through a reused operator To(%v)", T), bid, want)
		}
		if e.Violated() {
			return
		}
		// membership is the net effect of the operations so far
		for _, s := range socks {
			e.Check()
			rooms, ok := ad.SocketRooms(s.id)
			if model.rooms[s.id] == nil {
				if ok && rooms.Cardinality() > 0 {
					e.Violate("C04/membership", "seq", "after %s %v: %s is disconnected but SocketRooms says %v", op.Kind, op.I, s.id, rooms.ToSlice())
				}
				continue
			}
			var got, want []string
			if ok {
				for _, r := range rooms.ToSlice() {
					got = append(got, string(r))
				}
			}
			for r := range model.rooms[s.id] {
				want = append(want, string(r))
			}
			sort.Strings(got)
			sort.Strings(want)
			if fmt.Sprint(got) != fmt.Sprint(want) {
				e.Violate("C04/membership", "seq", "after %s %v: rooms of %s are %v, the joins and leaves so far give %v", op.Kind, op.I, s.id, got, want)
				return
			}
		}
	}
	if mixed {
		e.NonTrivial()
	}
	e.Shape(fmt.Sprintf("seq sa%v n%d", p.B("session_aware"), len(p.Ops)))
	e.Sample = map[string]any{"mode": "seq", "session_aware": p.B("session_aware"), "sockets": len(socks), "rooms": nr, "operations": len(p.Ops), "broadcasts": bid}
}

func runC04Matrix(e *sim.Env) {
	p := e.Plan
	cases := 0
	for m := 0; m < 512; m++ {
		ad, store, socks, model := c04NewRig(e, p.B("session_aware"), 3, nil)
		for s := 0; s < 3; s++ {
			var rs []adapter.Room
			for r := 0; r < 3; r++ {
				if m&(1<<(s*3+r)) != 0 {
					rs = append(rs, adapter.Room(c04Rooms[r]))
					model.rooms[socks[s].id][adapter.Room(c04Rooms[r])] = true
				}
			}
			if len(rs) > 0 {
				socks[s].Join(rs...)
			}
		}
		bid := int64(0)
		for t := int64(0); t < 8; t++ {
			for x := int64(0); x < 8; x++ {
				T, E := roomsOf(t, 3), roomsOf(x, 3)
				bid++
				cases++
				nsOp(ad).To(T...).Except(E...).Emit("ev", bid)
				for _, s := range socks {
					n := 0
					for _, id := range store.recv[s.id] {
						if id == bid {
							n++
						}
					}
					want := 0
					if model.eligible(s.id, T, E) {
						want = 1
					}
					if n != want {
						e.Violate("C04/matrix", fmt.Sprintf("T=%v E=%v", T, E), "membership matrix %09b, broadcast to %v except %v: %s received it %d times, expected %d", m, T, E, s.id, n, want)
						return
					}
				}
			}
		}
	}
	e.ChecksN(cases * 3)
	e.NonTrivial()
	e.Shape("matrix")
	e.Sample = map[string]any{"mode": "matrix", "session_aware": p.B("session_aware"), "cases": cases, "exhaustive": true}
}

type c04Touch struct {
	sid        adapter.SocketID
	kind       string // join, leave, disconnect
	rooms      []adapter.Room
	begin, end int64
	cs, rs     int // history sequence numbers (linearizability stamps)
}

func runC04Conc(e *sim.Env) {
	p := e.Plan
	nr := int(p.C("rooms"))
	var mu sync.Mutex
	var touches []*c04Touch
	ad, store, socks, _ := c04NewRig(e, p.B("session_aware"), int(p.C("sockets")), nil)
	// the rig's sockets report every atomic membership operation they perform on the adapter, whoever
	// asked for it (a task directly, or SocketsJoin / SocketsLeave / DisconnectSockets through the adapter)
	for _, s := range socks {
		s := s
		s.onOp2 = func(kind string, rooms []adapter.Room) func() {
			iid, cs := e.Invoke(50, fmt.Sprintf("%s %s %v", kind, s.id, rooms))
			t := &c04Touch{sid: s.id, kind: kind, rooms: rooms, begin: e.Now(), end: -1, cs: cs}
			mu.Lock()
			touches = append(touches, t)
			mu.Unlock()
			return func() {
				t.rs = e.Return(50, iid, kind)
				t.end = e.Now()
			}
		}
	}
	type bc struct {
		id         int64
		T, E       []adapter.Room
		sender     adapter.SocketID
		begin, end int64
	}
	type query struct {
		sid    adapter.SocketID
		got    string
		cs, rs int
	}
	var bcs []*bc
	var queries []*query
	bid := int64(0)
	byActor := map[int][]sim.Op{}
	for _, op := range p.Ops {
		byActor[op.Actor] = append(byActor[op.Actor], op)
	}
	actors := []int{}
	for a := range byActor {
		actors = append(actors, a)
	}
	sort.Ints(actors)
	for _, a := range actors {
		a := a
		ops := byActor[a]
		e.Go(func() {
			for _, op := range ops {
				e.SleepUntil(op.At)
				switch op.Kind {
				case "join":
					if rs := roomsOf(op.Int(1), nr); len(rs) > 0 {
						if _, ok := store.Get(socks[op.Int(0)].id); ok {
							socks[op.Int(0)].Join(rs...)
						}
					}
				case "leave":
					if _, ok := store.Get(socks[op.Int(0)].id); ok {
						socks[op.Int(0)].Leave(adapter.Room(c04Rooms[op.Int(1)]))
					}
				case "disconnect":
					if _, ok := store.Get(socks[op.Int(0)].id); ok {
						socks[op.Int(0)].Disconnect(false)
					}
				case "socketsjoin", "socketsleave":
					T, E, R := roomsOf(op.Int(0), nr), roomsOf(op.Int(1), nr), roomsOf(op.Int(2), nr)
					iid, _ := e.Invoke(a, fmt.Sprintf("%s %v %v %v", op.Kind, T, E, R))
					if op.Kind == "socketsjoin" {
						nsOp(ad).To(T...).Except(E...).SocketsJoin(R...)
					} else {
						nsOp(ad).To(T...).Except(E...).SocketsLeave(R...)
					}
					e.Return(a, iid, op.Kind)
				case "disconnectsockets":
					T, E := roomsOf(op.Int(0), nr), roomsOf(op.Int(1), nr)
					iid, _ := e.Invoke(a, fmt.Sprintf("disconnectsockets %v %v", T, E))
					nsOp(ad).To(T...).Except(E...).DisconnectSockets(false)
					e.Return(a, iid, op.Kind)
				case "reuse":
					// in the concurrent mode this slot queries membership instead (an observable for linearizability)
					s := socks[int(op.Int(0))%len(socks)]
					iid, cs := e.Invoke(a, fmt.Sprintf("SocketRooms %s", s.id))
					rooms, ok := ad.SocketRooms(s.id)
					rs := e.Return(a, iid, "SocketRooms")
					got := "none"
					if ok {
						var xs []string
						for _, r := range rooms.ToSlice() {
							xs = append(xs, string(r))
						}
						sort.Strings(xs)
						got = strings.Join(xs, ",")
					}
					mu.Lock()
					queries = append(queries, &query{sid: s.id, got: got, cs: cs, rs: rs})
					mu.Unlock()
				case "bcast", "sbcast":
					b := &bc{}
					var o *adapter.BroadcastOperator
					if op.Kind == "sbcast" {
						s := socks[op.Int(0)]
						if _, ok := store.Get(s.id); !ok {
							continue
						}
						b.T, b.E, b.sender = roomsOf(op.Int(1), nr), roomsOf(op.Int(2), nr), s.id
						o = s.Broadcast().To(b.T...).Except(b.E...)
					} else {
						b.T, b.E = roomsOf(op.Int(0), nr), roomsOf(op.Int(1), nr)
						o = nsOp(ad).To(b.T...).Except(b.E...)
					}
					mu.Lock()
					bid++
					b.id = bid
					bcs = append(bcs, b)
					mu.Unlock()
					iid, _ := e.Invoke(a, fmt.Sprintf("broadcast #%d", b.id))
					b.begin = e.Now()
					o.Emit("ev", b.id)
					b.end = e.Now()
					e.Return(a, iid, "broadcast")
				}
			}
		})
	}
	time.Sleep(time.Duration(p.Horizon))
	if pend := e.Pending(); len(pend) > 0 {
		e.Violate("C04/api-hang", "conc", "adapter calls still blocked: %v; locks held %v", pend, sim.HeldLocks())
		return
	}
	mu.Lock()
	defer mu.Unlock()
	store.mu.Lock()
	defer store.mu.Unlock()
	// a socket whose own membership operations overlapped each other has no exact state afterwards
	ambiguousFrom := map[adapter.SocketID]int64{}
	for i, a := range touches {
		for _, b := range touches[i+1:] {
			if a.sid == b.sid && a.begin <= b.end && b.begin <= a.end {
				t := min64(a.begin, b.begin)
				if cur, ok := ambiguousFrom[a.sid]; !ok || t < cur {
					ambiguousFrom[a.sid] = t
				}
			}
		}
	}
	overlap := 0
	for _, b := range bcs {
		for _, s := range socks {
			n := 0
			for _, id := range store.recv[s.id] {
				if id == b.id {
					n++
				}
			}
			e.Check()
			if n > 1 {
				e.Violate("C04/duplicate", "conc", "broadcast #%d reached %s %d times", b.id, s.id, n)
			}
			touched := false
			for _, t := range touches {
				if t.sid == s.id && t.begin <= b.end && t.end >= b.begin {
					touched = true
				}
			}
			if touched {
				overlap++
				continue
			}
			if t, ok := ambiguousFrom[s.id]; ok && t <= b.end {
				continue
			}
			// untouched throughout: exact expectation from the operations that completed before the broadcast began
			rooms := map[adapter.Room]bool{adapter.Room(s.id): true}
			alive := true
			done := append([]*c04Touch(nil), touches...)
			sort.SliceStable(done, func(i, j int) bool { return done[i].end < done[j].end })
			for _, t := range done {
				if t.sid != s.id || t.end >= b.begin {
					continue
				}
				switch t.kind {
				case "join":
					for _, r := range t.rooms {
						rooms[r] = true
					}
				case "leave":
					for _, r := range t.rooms {
						delete(rooms, r)
					}
				case "disconnect":
					alive = false
				}
			}
			m := &c04Model{rooms: map[adapter.SocketID]map[adapter.Room]bool{}}
			if alive {
				m.rooms[s.id] = rooms
			}
			want := m.eligible(s.id, b.T, b.E) && s.id != b.sender
			if s.id == b.sender && n > 0 {
				// (only for a sender whose own membership nobody touched meanwhile: the rig's disconnect is
				// DeleteAll then Remove, and a join racing it can re-create the socket without its own-id room)
				e.Violate("C04/sender-received", "conc", "a broadcast issued through %s reached %s itself", s.id, s.id)
			}
			if want && n == 0 {
				e.Violate("C04/missed", "conc", "broadcast #%d (to %v except %v, [%d,%d]) did not reach %s, a member throughout (rooms %v)", b.id, b.T, b.E, b.begin, b.end, s.id, rooms)
			}
			if !want && n > 0 {
				e.Violate("C04/wrong-recipient", "conc", "broadcast #%d (to %v except %v, [%d,%d]) reached %s, a non-member throughout (connected=%v rooms %v)", b.id, b.T, b.E, b.begin, b.end, s.id, alive, rooms)
			}
		}
	}
	// membership operations and SocketRooms queries: linearizable against a map of sets
	var lin []porcupine.Operation
	for _, t := range touches {
		if t.end < 0 {
			continue
		}
		lin = append(lin, porcupine.Operation{ClientId: len(lin), Input: memOp{t.kind, string(t.sid), roomStrs(t.rooms)}, Call: int64(t.cs), Return: int64(t.rs)})
	}
	for _, q := range queries {
		lin = append(lin, porcupine.Operation{ClientId: len(lin), Input: memOp{"query", string(q.sid), nil}, Output: q.got, Call: int64(q.cs), Return: int64(q.rs)})
	}
	e.Check()
	if len(queries) > 0 && len(lin) <= 36 {
		switch porcupine.CheckOperationsTimeout(memModel, lin, 20*time.Second) {
		case porcupine.Illegal:
			var qs []string
			for _, q := range queries {
				qs = append(qs, fmt.Sprintf("%s=%s", q.sid, q.got))
			}
			e.Violate("C04/membership-not-linearizable", "conc", "AddAll/Delete/DeleteAll/SocketRooms history (%d operations) is not linearizable against a map of sets; queries saw %v", len(lin), qs)
		case porcupine.Unknown:
			e.Inconclusive()
		default:
			e.Probe("porcupine-ok")
		}
	}
	if overlap > 0 {
		e.NonTrivial()
	}
	e.Shape(fmt.Sprintf("conc sa%v b%d", p.B("session_aware"), len(bcs)))
	e.Sample = map[string]any{"mode": "conc", "session_aware": p.B("session_aware"), "sockets": len(socks), "broadcasts": len(bcs), "membership_ops": len(touches), "queries": len(queries), "socket-broadcast pairs with overlapping membership change": overlap}
}

type memOp struct {
	kind  string
	sid   string
	rooms []string
}

func roomStrs(rs []adapter.Room) []string {
	out := make([]string, len(rs))
	for i, r := range rs {
		out[i] = string(r)
	}
	return out
}

// state: "sid:room,room;sid:..." sorted; a socket appears once it has been touched (all start in their own-id room)
func memState(st string) map[string]map[string]bool {
	m := map[string]map[string]bool{}
	for _, part := range strings.Split(st, ";") {
		if part == "" {
			continue
		}
		kv := strings.SplitN(part, ":", 2)
		m[kv[0]] = map[string]bool{}
		for _, r := range strings.Split(kv[1], ",") {
			if r != "" {
				m[kv[0]][r] = true
			}
		}
	}
	return m
}

func memEncode(m map[string]map[string]bool) string {
	var sids []string
	for s := range m {
		sids = append(sids, s)
	}
	sort.Strings(sids)
	var parts []string
	for _, s := range sids {
		var rs []string
		for r := range m[s] {
			rs = append(rs, r)
		}
		sort.Strings(rs)
		parts = append(parts, s+":"+strings.Join(rs, ","))
	}
	return strings.Join(parts, ";")
}

var memModel = porcupine.Model{
	Init: func() interface{} { return "" },
	Step: func(state, input, output interface{}) (bool, interface{}) {
		m := memState(state.(string))
		in := input.(memOp)
		_, gone := m[in.sid+"#gone"]
		cur, known := m[in.sid]
		if !known && !gone {
			cur = map[string]bool{in.sid: true} // connected, in its own-id room
			m[in.sid] = cur
		}
		switch in.kind {
		case "join":
			// the adapter's semantics: AddAll on an id it does not know (any more) creates it
			if cur == nil {
				cur = map[string]bool{}
				m[in.sid] = cur
				delete(m, in.sid+"#gone")
			}
			for _, r := range in.rooms {
				cur[r] = true
			}
		case "leave":
			for _, r := range in.rooms {
				delete(cur, r)
			}
		case "disconnect":
			delete(m, in.sid)
			m[in.sid+"#gone"] = map[string]bool{}
		case "query":
			want := "none"
			if cur != nil {
				var rs []string
				for r := range cur {
					rs = append(rs, r)
				}
				sort.Strings(rs)
				want = strings.Join(rs, ",")
			}
			return output.(string) == want, memEncode(m)
		}
		return true, memEncode(m)
	},
	Equal: func(a, b interface{}) bool { return a.(string) == b.(string) },
}
