package props

import (
	"fmt"
	eio "github.com/karagenc/socket.io-go/engine.io"
	"sync/atomic"
	"time"

	sio "github.com/karagenc/socket.io-go"

	"verif/dst/sim"
	"verif/dst/world"
)

// C16 — the public API is safe under arbitrary concurrent use: no data race, no deadlock, no mutex left held.
//
// The worker of this property is the race-detector build of the simulator (same program, -race). One
// plan = a concurrent program: 2..16 tasks, each a sequence of operations over the server, namespace,
// server socket, client socket and manager APIs; the handlers (event, acknowledgement, connection,
// disconnect) issue operations themselves. Three detectors watch it:
//   - the race detector (mode "race", race build): a report whose two conflicting accesses both lie in
//     the repository's code. In that build the harness shares its own state without any synchronisation
//     (sim.RaceBuild): a harness mutex would order every task after every other in the detector's eyes;
//   - the instrumented mutexes (mode "locks", ordinary build with lockshim's registries on): a call
//     that never returns, a bubble in which every task is blocked, lock misuse, and the locks held when
//     everything has gone quiet (calls that never return and bubble-wide deadlocks show in both modes);
//   - the process: a panic of the library.

func init() {
	Register(&Property{
		ID: "C16", Title: "The public API is safe under arbitrary concurrent use: no data race, no deadlock",
		Level: "exploration",
		Modes: []Mode{{Name: "race", Weight: 3}, {Name: "locks", Weight: 2}},
		Gen:   genC16, Run: runC16,
		QuickRuns: 500, ThoroughRuns: 8000,
		Race: true,
		Rule: "[every other plan creates all clients from one Engine.IO configuration value (shared dial options and HTTP transport)] plan = (2..16 tasks x 5..40 operations out of 33 kinds over Server / Namespace / BroadcastOperator / ServerSocket / ClientSocket / Manager incl. operations issued from event, acknowledgement, connection and disconnect handlers, shared argument values emitted by several tasks at once, 2 namespaces, 2..3 clients, transport, pauses, stall parameters) from VERIF_SEED, run by the race-detector build; " +
			"non-trivial = at least 4 tasks and at least one operation ran inside a handler; distinct = distinct history digest among those",
		Assumptions: []string{
			"the schedule is decided by the simulator on one P (GOMAXPROCS=1, seeded yields at every mutex operation); the race detector works on happens-before, not on observed overlap, so it does not need parallel execution; GOMAXPROCS 2/4/16 would make runs unrepeatable and is not used",
			"a race report counts when both conflicting accesses have a frame of the repository among their top six frames; reports that involve only the harness' own handler code are not the library's",
		},
		Real: commonReal, Stub: append(append([]string(nil), commonStub...), "race detector: the Go runtime's (ThreadSanitizer), -race build of the same simulator"),
	})
}

const c16Kinds = 33

func genC16(p *sim.Plan, r *sim.Rand, tier string) {
	world.DrawNet(p, r)
	if p.C("lat_us") > 2000 {
		p.Set("lat_us", 2000)
		p.Set("jit_us", 300)
	}
	p.Set("tr", int64(r.Intn(3)))
	p.Set("clients", int64(r.Range(2, 3)))
	p.Stall = DrawStall(r, 300_000_000)
	tasks := []int{2, 3, 4, 6, 8, 12, 16}[r.Intn(7)]
	p.Set("tasks", int64(tasks))
	for t := 0; t < tasks; t++ {
		n := r.Range(5, 40)
		for k := 0; k < n; k++ {
			pause := int64(0)
			if r.Bool(0.3) {
				pause = int64(r.LogDur(time.Microsecond, 5*time.Millisecond))
			}
			kind := r.Intn(c16Kinds)
			// destructive operations are rarer
			if (kind == 12 || kind == 13 || kind == 24 || kind == 25 || kind == 26 || kind == 31) && r.Bool(0.7) {
				kind = r.Intn(10)
			}
			p.Ops = append(p.Ops, sim.Op{At: 0, Actor: t, Kind: "op", I: []int64{int64(kind), int64(r.Intn(1 << 20)), pause}})
		}
	}
	p.Horizon = int64(6 * time.Second)
}

type c16Shared struct {
	Name string     `json:"name"`
	Blob sio.Binary `json:"blob"`
	N    int        `json:"n"`
}

func runC16(e *sim.Env) {
	p := e.Plan
	w := world.New(e, world.NetConfigFromPlan(p))
	far := 20 * time.Minute
	nc := int(p.C("clients"))
	rooms := []sio.Room{"r0", "r1", "r2"}
	nsps := []string{"/", "/n"}

	// values shared by all tasks: emitting them must not write to them
	sharedMap := map[string]any{"k": "v", "bin": sio.Binary("0123456789"), "list": []any{1, "two", sio.Binary("abc")}}
	sharedStruct := c16Shared{Name: "shared", Blob: sio.Binary("blobblob"), N: 7} // (by value: the encoder rejects pointers to structs with Binary fields)
	sharedSlice := []any{"x", sio.Binary("yz"), map[string]any{"deep": sio.Binary("deep")}}
	shared := func(k int) any {
		switch k % 3 {
		case 0:
			return sharedMap
		case 1:
			return sharedStruct
		default:
			return sharedSlice
		}
	}

	var mu sim.HMutex // (a no-op in the race build: the harness must not order the tasks, see sim.RaceBuild)
	// Server sockets are handed from the connection handler to the tasks the way an application would
	// do it: properly published (an atomic store, an atomic load). That orders the handler before the
	// task that picks the socket up and nothing else - the tasks are not ordered among themselves.
	type sockBox struct{ s sio.ServerSocket }
	var slots [64]atomic.Pointer[sockBox]
	var nslots atomic.Int32
	inHandler := 0
	noteHandler := func() {
		mu.Lock()
		inHandler++
		mu.Unlock()
	}
	pickSrv := func(k int) sio.ServerSocket {
		n := int(nslots.Load())
		if n > len(slots) {
			n = len(slots)
		}
		if n == 0 {
			return nil
		}
		if b := slots[k%n].Load(); b != nil {
			return b.s
		}
		return nil
	}
	var srv *sio.Server
	evHandler := func(s sio.ServerSocket) func(int) {
		return func(n int) {
			noteHandler()
			switch n % 6 {
			case 0:
				s.Join(rooms[n%3])
			case 1:
				s.Leave(rooms[n%3])
			case 2:
				s.Emit("down", n)
			case 3:
				s.Broadcast().Emit("down", n)
			case 4:
				s.Rooms()
			case 5:
				s.To(rooms[n%3]).Emit("down", n)
			}
		}
	}
	srv = w.StartServer(world.ServerOpts{PingInterval: 25 * time.Second, PingTimeout: far, UpgradeTimeout: far, Configure: func(s *sio.Server) {
		for _, name := range nsps {
			n := s.Of(name)
			n.OnConnection(func(sock sio.ServerSocket) {
				if i := int(nslots.Add(1)) - 1; i < len(slots) {
					slots[i].Store(&sockBox{sock})
				}
				sock.Join(rooms[len(sock.ID())%3])
				sock.OnEvent("up", evHandler(sock))
				sock.OnEvent("upack", func(n int, ack func(int)) { noteHandler(); sock.Join(rooms[n%3]); ack(n) })
				sock.OnEvent("val", func(v any) { noteHandler() })
				sock.OnDisconnect(func(reason sio.Reason) {
					noteHandler()
					sock.Rooms()
					n.Emit("down", 0)
				})
				sock.OnDisconnecting(func(reason sio.Reason) { sock.Rooms() })
				sock.OnError(func(err error) {})
			})
		}
	}})
	type cs struct {
		mgr   *sio.Manager
		socks []sio.ClientSocket
	}
	clients := make([]*cs, nc)
	// (half of the plans: every client is created from one Engine.IO configuration value, as an
	// application with several clients does - what the configuration points to is shared then)
	var sharedEIO *eio.ClientConfig
	if p.Index%2 == 1 {
		cfg := w.EIOClientConfig(0, world.ClientOpts{Transports: world.Transports(p.C("tr")), UpgradeTimeout: far})
		sharedEIO = &cfg
	}
	for c := 0; c < nc; c++ {
		c := c
		m := w.NewManagerEIO(c, world.ClientOpts{Transports: world.Transports(p.C("tr")), UpgradeTimeout: far, NoReconnection: c%2 == 0}, sharedEIO)
		m.OnError(func(error) {})
		cl := &cs{mgr: m}
		for _, name := range nsps {
			s := m.Socket(name, nil)
			s.OnEvent("down", func(n int) {
				noteHandler()
				if n%4 == 0 {
					s.Emit("up", n+1)
				}
			})
			s.OnEvent("downack", func(n int, ack func(int)) { noteHandler(); ack(n) })
			s.OnEvent("val", func(v any) { noteHandler() })
			s.OnConnect(func() { noteHandler(); s.Emit("up", 3) })
			s.OnDisconnect(func(sio.Reason) { noteHandler(); s.Connected() })
			s.OnConnectError(func(any) {})
			cl.socks = append(cl.socks, s)
			s.Connect()
		}
		clients[c] = cl
	}
	world.WaitUntil(5*time.Second, func() bool { return int(nslots.Load()) >= nc*len(nsps) })
	time.Sleep(20 * time.Millisecond)

	noop := func(int) {}
	var noops [4]func(int)
	for i := range noops {
		noops[i] = func(int) {}
	}
	do := func(task int, kind, k int) {
		nsp := srv.Of(nsps[k%2])
		cl := clients[k%nc]
		csock := cl.socks[(k/3)%len(cl.socks)]
		ss := pickSrv(k)
		room := rooms[k%3]
		switch kind {
		case 0:
			nsp.Emit("down", k)
		case 1:
			nsp.To(room).Emit("down", k)
		case 2:
			nsp.Except(room).Emit("val", shared(k))
		case 3:
			if ss != nil {
				ss.Emit("down", k)
			}
		case 4:
			if ss != nil {
				ss.Emit("downack", k, func(int) { noteHandler() })
			}
		case 5:
			if ss != nil {
				ss.Join(room, rooms[(k+1)%3])
			}
		case 6:
			if ss != nil {
				ss.Leave(room)
			}
		case 7:
			if ss != nil {
				ss.Rooms()
				ss.Connected()
			}
		case 8:
			nsp.Sockets()
			nsp.FetchSockets()
		case 9:
			nsp.In(room).SocketsJoin(rooms[(k+1)%3])
		case 10:
			nsp.In(room).SocketsLeave(rooms[(k+2)%3])
		case 11:
			if ss != nil {
				ss.Broadcast().To(room).Emit("val", shared(k))
			}
		case 12:
			if ss != nil {
				ss.Disconnect(k%5 == 0)
			}
		case 13:
			nsp.In(room).DisconnectSockets(false)
		case 14:
			if ss != nil {
				ss.OnEvent("extra", noops[k%4])
				ss.OnceEvent("extra", noop)
			}
		case 15:
			if ss != nil {
				ss.OffEvent("extra", noops[k%4])
			}
		case 16:
			if ss != nil {
				ss.OffEvent("extra")
				ss.Use(func(name string, v ...any) error { return nil })
			}
		case 17:
			f := sio.NamespaceConnectionFunc(func(sio.ServerSocket) {})
			nsp.OnConnection(f)
			nsp.OffConnection(f)
		case 18:
			csock.Emit("up", k)
		case 19:
			csock.Emit("upack", k, func(int) { noteHandler(); csock.Emit("up", k+1) })
		case 20:
			csock.Timeout(time.Duration(k%50+1)*time.Millisecond).Emit("upack", k, func(err error, n int) { noteHandler() })
		case 21:
			csock.Volatile().Emit("up", k)
		case 22:
			csock.Emit("val", shared(k))
		case 23:
			csock.OnEvent("extra", noops[k%4])
			csock.OffEvent("extra", noops[k%4])
		case 24:
			csock.Disconnect()
		case 25:
			csock.Connect()
		case 26:
			if k%2 == 0 {
				cl.mgr.Close()
			} else {
				cl.mgr.Open()
			}
		case 27:
			csock.Connected()
			csock.ID()
			csock.Active()
		case 28:
			srv.Of("/dyn"+fmt.Sprint(k%3)).Emit("down", k)
		case 29:
			nsp.Local().Compress(true).Emit("down", k)
		case 30:
			// the whole namespace, no room filter
			nsp.SocketsJoin(room)
			nsp.SocketsLeave(rooms[(k+1)%3])
		case 31:
			nsp.Except(room).DisconnectSockets(false)
		default:
			for _, fs := range nsp.FetchSockets() {
				fs.ID()
			}
		}
	}
	tasks := int(p.C("tasks"))
	for t := 0; t < tasks; t++ {
		t := t
		e.Go(func() {
			for _, op := range p.Ops {
				if op.Actor != t {
					continue
				}
				kind, k, pause := int(op.Int(0)), int(op.Int(1)), op.Int(2)
				iid, _ := e.Invoke(t, fmt.Sprintf("op kind=%d k=%d", kind, k))
				do(t, kind, k)
				e.Return(t, iid, "op")
				if pause > 0 {
					time.Sleep(time.Duration(pause))
				}
			}
		})
	}
	time.Sleep(time.Duration(p.Horizon))
	e.StopStalls()
	// everything that can wait has a bound far below this (ack time-outs <= 50 ms, the 10 s wait of a
	// disconnecting socket): after it, whoever is still inside a call is stuck
	time.Sleep(15 * time.Second)

	sig := fmt.Sprintf("tasks=%d", tasks)
	e.Check()
	if pend := e.Pending(); len(pend) > 0 {
		e.Violate("C16/api-blocked", "call never returned", "calls that did not return 15 s after the program ended: %v; locks held: %v", pend, sim.HeldLocks())
	}
	e.Check()
	if held := sim.HeldLocks(); len(held) > 0 { // (mode "locks": the ordinary build with the lock registries on)
		e.Violate("C16/mutex-left-held", fmt.Sprint(held[0]), "locks still held 15 s after the last operation, with no call in progress: %v", held)
	}
	mu.Lock()
	ih := inHandler
	mu.Unlock()
	if tasks >= 4 && ih > 0 {
		e.NonTrivial()
	}
	e.Shape(fmt.Sprintf("%s tr=%d", sig, p.C("tr")))
	e.Sample = map[string]any{"tasks": tasks, "operations": len(p.Ops), "operations_inside_handlers": ih, "clients": nc, "race_detector": "on (worker is the -race build)"}
}
