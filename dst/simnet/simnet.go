// Package simnet is the simulated TCP network: in-memory listener / dialer /
// conn with latency, jitter, chunking, scheduled faults and a byte tap.
//
// Contract kept (TCP's): bytes of one direction of one live connection arrive
// in order, unmodified, without loss or duplication. Faults are whole-connection
// events: reset, orderly close, silent black-hole, delivery stall; and dial-time
// events: refuse, time-out.
//
// Write never blocks (socket-buffer model). Read blocks on channels and timers
// only, so a blocked reader is durably blocked in a synctest bubble.
package simnet

import (
	"context"
	"fmt"
	"io"
	"net"
	"os"
	"sort"
	"strings"
	"sync"
	"syscall"
	"time"

	"verif/dst/sim"
)

var debugNet = os.Getenv("DST_DEBUG_NET") != ""

type Config struct {
	LatencyNs int64 // one-way base latency
	JitterNs  int64 // added uniformly in [0, JitterNs]
	Chunking  bool  // cut writes into random chunks
	Tap       bool  // record delivered bytes
	// KeepAliveNs: a black-holed established connection fails with ETIMEDOUT after this long (0 = never).
	KeepAliveNs int64
	// DialTimeoutNs: how long a dial into a black hole hangs before ETIMEDOUT (kernel connect time-out).
	DialTimeoutNs int64
	// LatPct scales the latency of the connections of a dialer (dialer id -> percent).
	LatPct map[string]int64
}

type Net struct {
	E   *sim.Env
	Cfg Config

	// WriteHook, when set, sees every write (connection, direction, bytes, fake time) and may
	// return an absolute fake time before which these bytes must not be delivered: the seam for
	// reactive faults such as "deliver this reply at the exact instant its time-out fires".
	WriteHook func(c *Conn, dir string, data []byte, now int64) (holdUntil int64)

	mu        sync.Mutex
	listeners map[string]*Listener
	conns     []*Conn // client-side endpoints, in dial order
	dialOrd   map[string]int
	rules     map[string]*rule // per dialer id ("*" = all)
	triggers  []sim.Fault      // byte-triggered faults waiting for their connection
	seed      uint64
}

type rule struct {
	refuse    bool
	blackhole bool // dials hang, established conns are black-holed
}

func New(e *sim.Env, cfg Config) *Net {
	if cfg.DialTimeoutNs == 0 {
		cfg.DialTimeoutNs = int64(127 * time.Second)
	}
	return &Net{E: e, Cfg: cfg, listeners: map[string]*Listener{}, dialOrd: map[string]int{}, rules: map[string]*rule{}, seed: e.Plan.Seed}
}

// ---------------------------------------------------------------------------
// errors

type timeoutErr struct{ s string }

func (e *timeoutErr) Error() string   { return e.s }
func (e *timeoutErr) Timeout() bool   { return true }
func (e *timeoutErr) Temporary() bool { return true }

func opErr(op string, c *Conn, err error) error {
	return &net.OpError{Op: op, Net: "tcp", Source: c.local, Addr: c.remote, Err: err}
}

// ---------------------------------------------------------------------------
// listener

type Addr string

func (a Addr) Network() string { return "tcp" }
func (a Addr) String() string  { return string(a) }

type Listener struct {
	n      *Net
	addr   string
	ch     chan *Conn
	closed chan struct{}
	once   sync.Once
}

func (n *Net) Listen(addr string) *Listener {
	l := &Listener{n: n, addr: addr, ch: make(chan *Conn, 1024), closed: make(chan struct{})}
	n.mu.Lock()
	n.listeners[addr] = l
	n.mu.Unlock()
	return l
}

func (l *Listener) Accept() (net.Conn, error) {
	select {
	case c := <-l.ch:
		return c, nil
	case <-l.closed:
		return nil, &net.OpError{Op: "accept", Net: "tcp", Addr: Addr(l.addr), Err: net.ErrClosed}
	}
}

func (l *Listener) Close() error {
	l.once.Do(func() {
		close(l.closed)
		l.n.mu.Lock()
		if l.n.listeners[l.addr] == l {
			delete(l.n.listeners, l.addr)
		}
		l.n.mu.Unlock()
	})
	return nil
}

func (l *Listener) Addr() net.Addr { return Addr(l.addr) }

// ---------------------------------------------------------------------------
// connection

type chunk struct {
	data []byte
	due  int64
}

type TapRec struct {
	At   int64
	Data []byte
}

// half is one direction of a connection, seen from its reader.
type half struct {
	q         []chunk
	buf       []byte
	wake      chan struct{}
	fin       bool  // writer closed; EOF after the queue drains and finDue passes
	finDue    int64 //
	reset     bool  // RST seen: reads fail
	timedOut  bool  // keep-alive expiry
	blackhole bool  // bytes written from now on vanish
	lastDue   int64
	written   int64 // bytes ever written into this direction
	delivered int64
	tap       []TapRec
	rdl       int64 // read deadline (fake ns since start; 0 = none)
}

type Conn struct {
	n      *Net
	name   string // "c0p#1" on both endpoints
	client bool
	peer   *Conn
	local  Addr
	remote Addr
	rng    *sim.Rand
	latNs  int64

	// shared between the two endpoints
	sh *shared

	rx     *half // what I read
	closed bool  // my side closed
}

type shared struct {
	mu       sync.Mutex
	triggers []sim.Fault
	dead     bool // reset
}

func (c *Conn) Name() string { return c.name }

func (c *Conn) String() string {
	side := "srv"
	if c.client {
		side = "cli"
	}
	return c.name + "/" + side
}

func wake(h *half) {
	select {
	case h.wake <- struct{}{}:
	default:
	}
}

func (c *Conn) Read(p []byte) (int, error) {
	if len(p) == 0 {
		return 0, nil
	}
	e := c.n.E
	h := c.rx
	for {
		c.sh.mu.Lock()
		now := e.Now()
		if c.closed {
			c.sh.mu.Unlock()
			return 0, opErr("read", c, net.ErrClosed)
		}
		// move due chunks
		for len(h.q) > 0 && h.q[0].due <= now {
			ck := h.q[0]
			h.q = h.q[1:]
			h.buf = append(h.buf, ck.data...)
			h.delivered += int64(len(ck.data))
			if c.n.Cfg.Tap {
				h.tap = append(h.tap, TapRec{At: ck.due, Data: ck.data})
			}
		}
		if len(h.buf) > 0 {
			k := copy(p, h.buf)
			h.buf = h.buf[k:]
			if len(h.buf) == 0 {
				h.buf = nil
			}
			c.sh.mu.Unlock()
			return k, nil
		}
		if h.reset {
			c.sh.mu.Unlock()
			return 0, opErr("read", c, syscall.ECONNRESET)
		}
		if h.timedOut {
			c.sh.mu.Unlock()
			return 0, opErr("read", c, syscall.ETIMEDOUT)
		}
		if h.rdl != 0 && h.rdl <= now {
			c.sh.mu.Unlock()
			return 0, opErr("read", c, os.ErrDeadlineExceeded)
		}
		var wait int64 = -1
		if len(h.q) > 0 {
			wait = h.q[0].due - now
		} else if h.fin {
			if h.finDue <= now {
				c.sh.mu.Unlock()
				return 0, io.EOF
			}
			wait = h.finDue - now
		}
		if h.rdl != 0 && (wait < 0 || h.rdl-now < wait) {
			wait = h.rdl - now
		}
		c.sh.mu.Unlock()
		if wait >= 0 {
			t := time.NewTimer(time.Duration(wait))
			select {
			case <-h.wake:
				t.Stop()
			case <-t.C:
			}
		} else {
			<-h.wake
		}
	}
}

func (c *Conn) Write(p []byte) (int, error) {
	e := c.n.E
	c.sh.mu.Lock()
	defer c.sh.mu.Unlock()
	now := e.Now()
	if c.closed {
		return 0, opErr("write", c, net.ErrClosed)
	}
	h := c.peer.rx // the direction I write into
	if c.sh.dead || h.reset {
		return 0, opErr("write", c, syscall.EPIPE)
	}
	if c.rx.timedOut {
		return 0, opErr("write", c, syscall.ETIMEDOUT)
	}
	if c.peer.closed && c.rx.fin && c.rx.finDue <= now {
		// the peer's FIN has reached us: its stack answers data with RST
		return 0, opErr("write", c, syscall.EPIPE)
	}
	total := len(p)
	if debugNet {
		if os.Getenv("DST_DEBUG_NET") == "full" {
			e.Log(-3, "net.write", "%s %dB %q", c, len(p), p)
		} else {
			e.Log(-3, "net.write", "%s %dB %.60q", c, len(p), p)
		}
	}
	// byte-triggered faults on this direction
	dir := "s2c"
	if c.client {
		dir = "c2s"
	}
	if hk := c.n.WriteHook; hk != nil {
		if until := hk(c, dir, p, now); until > now {
			if h.lastDue < until {
				h.lastDue = until // FIFO: everything from here on is due no earlier
			}
			e.FaultFired("hold-until")
		}
	}
	for len(p) > 0 {
		cutAt := -1
		var trig *sim.Fault
		for i := range c.sh.triggers {
			f := &c.sh.triggers[i]
			if (f.Dir != "" && f.Dir != dir) || f.At >= 0 {
				continue
			}
			k := f.Int(0)
			if k >= h.written && k < h.written+int64(len(p)) {
				if cutAt < 0 || int(k-h.written) < cutAt {
					cutAt = int(k - h.written)
					trig = f
				}
			}
		}
		if trig == nil {
			c.enqueue(h, p, now)
			break
		}
		c.enqueue(h, p[:cutAt], now)
		p = p[cutAt:]
		f := *trig
		trig.At = 1 << 62 // consumed
		c.applyLocked(f, now)
		if c.sh.dead {
			// the stack accepted the bytes; they are gone
			return total, nil
		}
	}
	return total, nil
}

// enqueue cuts data into chunks and schedules them FIFO on h. Caller holds sh.mu.
func (c *Conn) enqueue(h *half, data []byte, now int64) {
	if len(data) == 0 {
		return
	}
	h.written += int64(len(data))
	if h.blackhole {
		return
	}
	cp := append([]byte(nil), data...)
	var parts [][]byte
	if c.n.Cfg.Chunking && len(cp) > 1 && c.rng.Bool(0.6) {
		ncut := c.rng.Range(1, 6)
		cuts := map[int]bool{}
		for i := 0; i < ncut; i++ {
			var at int
			switch c.rng.Intn(4) {
			case 0:
				at = 1
			case 1:
				at = len(cp) - 1
			case 2:
				at = c.rng.Range(1, min(len(cp)-1, 16))
			default:
				at = c.rng.Range(1, len(cp)-1)
			}
			cuts[at] = true
		}
		ks := make([]int, 0, len(cuts))
		for k := range cuts {
			ks = append(ks, k)
		}
		sort.Ints(ks)
		prev := 0
		for _, k := range ks {
			parts = append(parts, cp[prev:k])
			prev = k
		}
		parts = append(parts, cp[prev:])
	} else {
		parts = [][]byte{cp}
	}
	for _, part := range parts {
		due := now + c.latNs
		if c.n.Cfg.JitterNs > 0 {
			due += c.rng.I64n(c.n.Cfg.JitterNs + 1)
		}
		if due < h.lastDue {
			due = h.lastDue
		}
		h.lastDue = due
		h.q = append(h.q, chunk{data: part, due: due})
	}
	wake(h)
}

func (c *Conn) Close() error {
	e := c.n.E
	c.sh.mu.Lock()
	if c.closed {
		c.sh.mu.Unlock()
		return opErr("close", c, net.ErrClosed)
	}
	c.closed = true
	now := e.Now()
	h := c.peer.rx
	if !h.fin {
		h.fin = true
		due := now + c.latNs
		if due < h.lastDue {
			due = h.lastDue
		}
		h.finDue = due
	}
	wake(h)
	wake(c.rx)
	c.sh.mu.Unlock()
	e.Log(-3, "net.close", "%s", c)
	return nil
}

func (c *Conn) LocalAddr() net.Addr  { return c.local }
func (c *Conn) RemoteAddr() net.Addr { return c.remote }

func (c *Conn) SetDeadline(t time.Time) error {
	c.SetReadDeadline(t)
	return nil
}

func (c *Conn) SetReadDeadline(t time.Time) error {
	c.sh.mu.Lock()
	if t.IsZero() {
		c.rx.rdl = 0
	} else {
		c.rx.rdl = c.n.E.Now() + int64(time.Until(t))
		if c.rx.rdl == 0 {
			c.rx.rdl = -1
		}
	}
	wake(c.rx)
	c.sh.mu.Unlock()
	return nil
}

func (c *Conn) SetWriteDeadline(t time.Time) error { return nil }

// ---------------------------------------------------------------------------
// dialing

// Dialer returns a DialContext function for the dialer identity id (e.g.
// "c0p" = client 0's polling transport, "c0w" = its WebSocket dialer).
func (n *Net) Dialer(id string) func(ctx context.Context, network, addr string) (net.Conn, error) {
	return func(ctx context.Context, network, addr string) (net.Conn, error) {
		return n.dial(ctx, id, addr)
	}
}

func (n *Net) ruleFor(id string) rule {
	var r rule
	for k, v := range n.rules {
		if k == "*" || k == id || (strings.HasSuffix(k, "*") && strings.HasPrefix(id, strings.TrimSuffix(k, "*"))) {
			if v.refuse {
				r.refuse = true
			}
			if v.blackhole {
				r.blackhole = true
			}
		}
	}
	return r
}

func (n *Net) dial(ctx context.Context, id, addr string) (net.Conn, error) {
	e := n.E
	n.mu.Lock()
	n.dialOrd[id]++
	ord := n.dialOrd[id]
	name := fmt.Sprintf("%s#%d", id, ord)
	rng := sim.NewRand(n.seed).Fork("conn").Fork(name)
	lat := n.Cfg.LatencyNs
	if lat > 0 {
		lat = lat/2 + rng.I64n(lat+1)
		if pct, ok := n.Cfg.LatPct[id]; ok {
			lat = lat * pct / 100
		}
	}
	r := n.ruleFor(id)
	n.mu.Unlock()

	raddr := Addr(addr)
	dialErr := func(err error) error {
		return &net.OpError{Op: "dial", Net: "tcp", Addr: raddr, Err: err}
	}
	if r.blackhole {
		e.FaultFired("dial-timeout")
		e.Log(-3, "net.dial", "%s -> black hole", name)
		t := time.NewTimer(time.Duration(n.Cfg.DialTimeoutNs))
		defer t.Stop()
		select {
		case <-ctx.Done():
			return nil, dialErr(ctx.Err())
		case <-t.C:
			return nil, dialErr(syscall.ETIMEDOUT)
		}
	}
	// SYN / SYN-ACK
	if lat > 0 {
		t := time.NewTimer(time.Duration(2 * lat))
		select {
		case <-ctx.Done():
			t.Stop()
			return nil, dialErr(ctx.Err())
		case <-t.C:
		}
	}
	n.mu.Lock()
	r = n.ruleFor(id)
	if r.blackhole {
		// the route died while the handshake was in flight
		n.mu.Unlock()
		e.FaultFired("dial-timeout")
		e.Log(-3, "net.dial", "%s -> black hole (mid-handshake)", name)
		t := time.NewTimer(time.Duration(n.Cfg.DialTimeoutNs))
		defer t.Stop()
		select {
		case <-ctx.Done():
			return nil, dialErr(ctx.Err())
		case <-t.C:
			return nil, dialErr(syscall.ETIMEDOUT)
		}
	}
	l := n.listeners[addr]
	if r.refuse || l == nil {
		n.mu.Unlock()
		if r.refuse {
			e.FaultFired("refuse")
		}
		e.Log(-3, "net.dial", "%s -> refused", name)
		return nil, dialErr(syscall.ECONNREFUSED)
	}
	sh := &shared{}
	cli := &Conn{n: n, name: name, client: true, local: Addr(name), remote: raddr, rng: rng.Fork("cli"), latNs: lat, sh: sh,
		rx: &half{wake: make(chan struct{}, 1)}}
	srv := &Conn{n: n, name: name, client: false, local: raddr, remote: Addr(name), rng: rng.Fork("srv"), latNs: lat, sh: sh,
		rx: &half{wake: make(chan struct{}, 1)}}
	cli.peer, srv.peer = srv, cli
	// attach byte-triggered faults aimed at this connection
	rest := n.triggers[:0]
	for _, f := range n.triggers {
		if f.Target == name {
			sh.triggers = append(sh.triggers, f)
		} else {
			rest = append(rest, f)
		}
	}
	n.triggers = rest
	n.conns = append(n.conns, cli)
	n.mu.Unlock()
	select {
	case l.ch <- srv:
	case <-l.closed:
		return nil, dialErr(syscall.ECONNREFUSED)
	}
	e.Log(-3, "net.dial", "%s -> connected (lat %dns)", name, lat)
	return cli, nil
}

// ---------------------------------------------------------------------------
// faults

func match(target, name string) bool {
	if target == "" || target == "*" {
		return true
	}
	if strings.HasSuffix(target, "*") {
		return strings.HasPrefix(name, strings.TrimSuffix(target, "*"))
	}
	return target == name
}

// applyLocked applies a connection-level fault. Caller holds c.sh.mu.
func (c *Conn) applyLocked(f sim.Fault, now int64) {
	e := c.n.E
	a, b := c.rx, c.peer.rx
	dirs := []*half{a, b}
	if f.Dir != "" {
		// the half read by the server is "c2s"
		var c2s, s2c *half
		if c.client {
			s2c, c2s = c.rx, c.peer.rx
		} else {
			c2s, s2c = c.rx, c.peer.rx
		}
		if f.Dir == "c2s" {
			dirs = []*half{c2s}
		} else {
			dirs = []*half{s2c}
		}
	}
	switch f.Kind {
	case "cut":
		c.sh.dead = true
		for _, h := range []*half{a, b} {
			h.reset = true
			h.q = nil
			wake(h)
		}
	case "fin":
		for _, h := range []*half{a, b} {
			if !h.fin {
				h.fin = true
				h.finDue = max(now, h.lastDue)
			}
			wake(h)
		}
	case "blackhole":
		for _, h := range dirs {
			h.blackhole = true
			h.q = nil // in flight: gone with the route
		}
	case "unblackhole":
		for _, h := range dirs {
			h.blackhole = false
		}
	case "keepalive-expire":
		for _, h := range []*half{a, b} {
			h.timedOut = true
			wake(h)
		}
	case "stall":
		until := now + f.Int(0)
		if f.At < 0 {
			until = now + f.Int(1)
		}
		for _, h := range dirs {
			for i := range h.q {
				if h.q[i].due < until {
					h.q[i].due = until
				}
			}
			if h.lastDue < until {
				h.lastDue = until
			}
			if h.fin && h.finDue < until {
				h.finDue = until
			}
			wake(h)
		}
	default:
		return
	}
	e.FaultFired(f.Kind)
	e.Log(-3, "net.fault", "%s %s dir=%q on %s", f.Kind, f.Target, f.Dir, c.name)
}

// Apply applies a fault now to every matching established connection (and, for
// dial rules, to future dials).
func (n *Net) Apply(f sim.Fault) {
	e := n.E
	now := e.Now()
	switch f.Kind {
	case "refuse", "dial-blackhole", "heal", "partition":
		n.mu.Lock()
		key := f.Target
		if key == "" {
			key = "*"
		}
		// dial rules are keyed by dialer id: strip a "#ord" if present
		if i := strings.Index(key, "#"); i >= 0 {
			key = key[:i]
		}
		switch f.Kind {
		case "refuse":
			n.rules[key] = &rule{refuse: true}
		case "dial-blackhole":
			n.rules[key] = &rule{blackhole: true}
		case "partition":
			n.rules[key] = &rule{blackhole: true}
		case "heal":
			if key == "*" {
				n.rules = map[string]*rule{}
			} else {
				delete(n.rules, key)
			}
		}
		conns := append([]*Conn(nil), n.conns...)
		n.mu.Unlock()
		e.FaultFired(f.Kind)
		e.Log(-3, "net.fault", "%s %s", f.Kind, f.Target)
		if f.Kind == "partition" {
			for _, c := range conns {
				if match(f.Target, c.name) {
					c.sh.mu.Lock()
					c.applyLocked(sim.Fault{Kind: "blackhole", Target: f.Target}, now)
					c.sh.mu.Unlock()
					n.armKeepAlive(c)
				}
			}
		}
		return
	case "listener-close":
		n.mu.Lock()
		l := n.listeners[f.Target]
		n.mu.Unlock()
		if l != nil {
			l.Close()
			e.FaultFired(f.Kind)
		}
		return
	}
	n.mu.Lock()
	if f.Kind == "blackhole" && !strings.Contains(f.Target, "#") {
		// a dead route also swallows the SYNs of later dials from the same dialer(s)
		key := f.Target
		if key == "" {
			key = "*"
		}
		n.rules[key] = &rule{blackhole: true}
	}
	conns := append([]*Conn(nil), n.conns...)
	n.mu.Unlock()
	for _, c := range conns {
		if !match(f.Target, c.name) {
			continue
		}
		c.sh.mu.Lock()
		live := !c.sh.dead && !(c.closed && c.peer.closed)
		if live {
			c.applyLocked(f, now)
		}
		c.sh.mu.Unlock()
		if live && f.Kind == "blackhole" {
			n.armKeepAlive(c)
		}
	}
}

func (n *Net) armKeepAlive(c *Conn) {
	if n.Cfg.KeepAliveNs <= 0 {
		return
	}
	go func() {
		time.Sleep(time.Duration(n.Cfg.KeepAliveNs))
		c.sh.mu.Lock()
		if c.rx.blackhole || c.peer.rx.blackhole {
			c.applyLocked(sim.Fault{Kind: "keepalive-expire", Target: c.name}, n.E.Now())
		}
		c.sh.mu.Unlock()
	}()
}

// Schedule starts the fault driver: time-triggered faults fire at their fake
// time; byte-triggered ones (At < 0) are attached to their connection when it
// is dialled.
func (n *Net) Schedule(faults []sim.Fault) {
	var timed []sim.Fault
	n.mu.Lock()
	for _, f := range faults {
		if f.At < 0 {
			n.triggers = append(n.triggers, f)
		} else {
			timed = append(timed, f)
		}
	}
	n.mu.Unlock()
	sort.SliceStable(timed, func(i, j int) bool { return timed[i].At < timed[j].At })
	if len(timed) == 0 {
		return
	}
	go func() {
		for _, f := range timed {
			n.E.SleepUntil(f.At)
			n.Apply(f)
		}
	}()
}

// Conns lists the client-side endpoints dialled so far.
func (n *Net) Conns() []*Conn {
	n.mu.Lock()
	defer n.mu.Unlock()
	return append([]*Conn(nil), n.conns...)
}

// Tap returns the bytes delivered in one direction ("c2s" or "s2c") of a connection.
func (c *Conn) Tap(dir string) []TapRec {
	c.sh.mu.Lock()
	defer c.sh.mu.Unlock()
	cli := c
	if !c.client {
		cli = c.peer
	}
	if dir == "s2c" {
		return append([]TapRec(nil), cli.rx.tap...)
	}
	return append([]TapRec(nil), cli.peer.rx.tap...)
}

// Written reports the bytes ever written in a direction (for byte-offset sweeps).
func (c *Conn) Written(dir string) int64 {
	c.sh.mu.Lock()
	defer c.sh.mu.Unlock()
	cli := c
	if !c.client {
		cli = c.peer
	}
	if dir == "s2c" {
		return cli.rx.written
	}
	return cli.peer.rx.written
}
