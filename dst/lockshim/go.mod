module github.com/sasha-s/go-deadlock

go 1.22
