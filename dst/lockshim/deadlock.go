// Package deadlock is the simulator's lock layer. It takes the place of
// github.com/sasha-s/go-deadlock (via a `replace` in the harness go.mod) when
// the repository is built with its own `sio_deadlock` tag, so every mutex the
// library takes through internal/sync becomes one of the types below.
//
// Why not wrap sync.Mutex: inside a testing/synctest bubble a goroutine blocked
// on a sync.Mutex is not "durably blocked", so the fake clock cannot advance
// while anybody waits for a lock whose holder is itself waiting for simulated
// time (a POST in flight under transportMu.RLock, a dial under eioMu). A
// goroutine blocked on a channel is durably blocked. All waits here are channel
// waits.
//
// Every acquire is preceded, and every release followed, by a call to Hook: the
// simulator's yield points.
package deadlock

import (
	"fmt"
	"runtime"
	"sync"
	"sync/atomic"
	"time"
	"unsafe"
)

type Op uint8

const (
	OpLock Op = iota
	OpUnlock
	OpRLock
	OpRUnlock
	OpOnce
)

func (o Op) String() string {
	return [...]string{"Lock", "Unlock", "RLock", "RUnlock", "Once"}[o]
}

// Hook is the yield point. It is called before Lock/RLock/Once.Do and after
// Unlock/RUnlock with the lock's address and the caller's PC. It must be set
// while no simulated goroutine runs.
var Hook func(op Op, lock unsafe.Pointer, pc uintptr)

// Track enables the held/waiter registries.
var Track = true

type (
	Locker    = sync.Locker
	WaitGroup = sync.WaitGroup
	Cond      = sync.Cond
	Pool      = sync.Pool
	Map       = sync.Map
)

// ---------------------------------------------------------------------------
// epoch: package-level locks of the library must not carry a channel from one
// bubble into the next.

var epoch atomic.Uint64

// NewEpoch forgets all registry state and makes every lock re-create its
// channels on next use. Call between runs, with no simulated goroutine running.
func NewEpoch() {
	epoch.Add(1)
	regMu.Lock()
	held = map[unsafe.Pointer]*HoldInfo{}
	waiters = map[uint64]*WaitInfo{}
	misuse = nil
	regMu.Unlock()
}

// ---------------------------------------------------------------------------
// registries

type HoldInfo struct {
	Lock    unsafe.Pointer
	PC      uintptr
	Writer  bool
	Readers int
	Since   time.Time
}

type WaitInfo struct {
	Lock  unsafe.Pointer
	PC    uintptr
	Op    Op
	Since time.Time
}

var (
	regMu    sync.Mutex
	held     = map[unsafe.Pointer]*HoldInfo{}
	waiters  = map[uint64]*WaitInfo{}
	waitTok  uint64
	misuse   []string
	ackOrder uint64
)

func setHeld(p unsafe.Pointer, pc uintptr, writer bool) {
	if !Track {
		return
	}
	now := time.Now()
	regMu.Lock()
	h := held[p]
	if h == nil {
		h = &HoldInfo{Lock: p}
		held[p] = h
	}
	h.PC = pc
	h.Since = now
	if writer {
		h.Writer = true
	} else {
		h.Readers++
	}
	regMu.Unlock()
}

func clearHeld(p unsafe.Pointer, writer bool) {
	if !Track {
		return
	}
	regMu.Lock()
	if h := held[p]; h != nil {
		if writer {
			h.Writer = false
		} else {
			h.Readers--
		}
		if !h.Writer && h.Readers <= 0 {
			delete(held, p)
		}
	}
	regMu.Unlock()
}

func addWaiter(p unsafe.Pointer, pc uintptr, op Op) uint64 {
	if !Track {
		return 0
	}
	now := time.Now()
	regMu.Lock()
	waitTok++
	t := waitTok
	waiters[t] = &WaitInfo{Lock: p, PC: pc, Op: op, Since: now}
	regMu.Unlock()
	return t
}

func delWaiter(t uint64) {
	if !Track {
		return
	}
	regMu.Lock()
	delete(waiters, t)
	regMu.Unlock()
}

// Held returns a snapshot of the locks currently held.
func Held() []HoldInfo {
	regMu.Lock()
	defer regMu.Unlock()
	out := make([]HoldInfo, 0, len(held))
	for _, h := range held {
		out = append(out, *h)
	}
	return out
}

// Waiters returns a snapshot of the goroutines currently blocked on a lock.
func Waiters() []WaitInfo {
	regMu.Lock()
	defer regMu.Unlock()
	out := make([]WaitInfo, 0, len(waiters))
	for _, w := range waiters {
		out = append(out, *w)
	}
	return out
}

// Misuse returns lock-API misuse seen since the last NewEpoch (unlock of an
// unlocked mutex and the like). sync would make the process die for these.
func Misuse() []string {
	regMu.Lock()
	defer regMu.Unlock()
	return append([]string(nil), misuse...)
}

func reportMisuse(what string, pc uintptr) {
	regMu.Lock()
	misuse = append(misuse, fmt.Sprintf("%s at %s", what, Site(pc)))
	regMu.Unlock()
	panic("lockshim: " + what)
}

// Site renders a PC as file:line (function), trimmed to the repository-relative
// path where possible.
func Site(pc uintptr) string {
	if pc == 0 {
		return "?"
	}
	f := runtime.FuncForPC(pc - 1)
	if f == nil {
		return fmt.Sprintf("pc=%#x", pc)
	}
	file, line := f.FileLine(pc - 1)
	return fmt.Sprintf("%s:%d", file, line)
}

func callerPC(skip int) uintptr {
	var pcs [1]uintptr
	if runtime.Callers(skip+1, pcs[:]) == 0 {
		return 0
	}
	return pcs[0]
}

func hook(op Op, p unsafe.Pointer, pc uintptr) {
	if h := Hook; h != nil {
		h(op, p, pc)
	}
}

// ---------------------------------------------------------------------------
// Mutex

type mstate struct {
	c     chan struct{}
	epoch uint64
}

// A Mutex is a one-slot channel: Lock sends, Unlock receives. Waiters are
// served in arrival order (a legal sync.Mutex behaviour).
type Mutex struct {
	st atomic.Pointer[mstate]
}

func (m *Mutex) state() *mstate {
	e := epoch.Load()
	for {
		s := m.st.Load()
		if s != nil && s.epoch == e {
			return s
		}
		n := &mstate{c: make(chan struct{}, 1), epoch: e}
		if m.st.CompareAndSwap(s, n) {
			return n
		}
	}
}

func (m *Mutex) Lock() { m.lockPC(callerPC(2)) }

func (m *Mutex) lockPC(pc uintptr) {
	p := unsafe.Pointer(m)
	hook(OpLock, p, pc)
	s := m.state()
	select {
	case s.c <- struct{}{}:
	default:
		t := addWaiter(p, pc, OpLock)
		s.c <- struct{}{}
		delWaiter(t)
	}
	setHeld(p, pc, true)
}

func (m *Mutex) TryLock() bool {
	pc := callerPC(2)
	p := unsafe.Pointer(m)
	s := m.state()
	select {
	case s.c <- struct{}{}:
		setHeld(p, pc, true)
		return true
	default:
		return false
	}
}

func (m *Mutex) Unlock() { m.unlockPC(callerPC(2)) }

func (m *Mutex) unlockPC(pc uintptr) {
	p := unsafe.Pointer(m)
	s := m.state()
	clearHeld(p, true)
	select {
	case <-s.c:
	default:
		reportMisuse("unlock of unlocked Mutex", pc)
	}
	hook(OpUnlock, p, pc)
}

// ---------------------------------------------------------------------------
// RWMutex: same admission rule as sync.RWMutex — a pending writer blocks new
// readers; Unlock releases all readers that queued meanwhile, else one writer.

type RWMutex struct {
	mu      sync.Mutex // guards the fields below; never held across a wait
	epoch   uint64
	readers int
	writer  bool
	waitW   []chan struct{}
	waitR   []chan struct{}
}

func (m *RWMutex) sync() {
	if e := epoch.Load(); m.epoch != e {
		m.epoch = e
		m.readers, m.writer, m.waitW, m.waitR = 0, false, nil, nil
	}
}

func (m *RWMutex) Lock() {
	pc := callerPC(2)
	p := unsafe.Pointer(m)
	hook(OpLock, p, pc)
	m.mu.Lock()
	m.sync()
	if !m.writer && m.readers == 0 {
		m.writer = true
		m.mu.Unlock()
	} else {
		ch := make(chan struct{})
		m.waitW = append(m.waitW, ch)
		m.mu.Unlock()
		t := addWaiter(p, pc, OpLock)
		<-ch
		delWaiter(t)
	}
	setHeld(p, pc, true)
}

func (m *RWMutex) Unlock() {
	pc := callerPC(2)
	p := unsafe.Pointer(m)
	clearHeld(p, true)
	m.mu.Lock()
	m.sync()
	if !m.writer {
		m.mu.Unlock()
		reportMisuse("Unlock of unlocked RWMutex", pc)
	}
	m.writer = false
	if len(m.waitR) > 0 {
		for _, ch := range m.waitR {
			m.readers++
			close(ch)
		}
		m.waitR = nil
	} else if len(m.waitW) > 0 {
		ch := m.waitW[0]
		m.waitW = m.waitW[1:]
		m.writer = true
		close(ch)
	}
	m.mu.Unlock()
	hook(OpUnlock, p, pc)
}

func (m *RWMutex) RLock() {
	pc := callerPC(2)
	p := unsafe.Pointer(m)
	hook(OpRLock, p, pc)
	m.mu.Lock()
	m.sync()
	if !m.writer && len(m.waitW) == 0 {
		m.readers++
		m.mu.Unlock()
	} else {
		ch := make(chan struct{})
		m.waitR = append(m.waitR, ch)
		m.mu.Unlock()
		t := addWaiter(p, pc, OpRLock)
		<-ch
		delWaiter(t)
	}
	setHeld(p, pc, false)
}

func (m *RWMutex) RUnlock() {
	pc := callerPC(2)
	p := unsafe.Pointer(m)
	clearHeld(p, false)
	m.mu.Lock()
	m.sync()
	if m.readers <= 0 {
		m.mu.Unlock()
		reportMisuse("RUnlock of unlocked RWMutex", pc)
	}
	m.readers--
	if m.readers == 0 && len(m.waitW) > 0 {
		ch := m.waitW[0]
		m.waitW = m.waitW[1:]
		m.writer = true
		close(ch)
	}
	m.mu.Unlock()
	hook(OpRUnlock, p, pc)
}

type rlocker RWMutex

func (r *rlocker) Lock()   { (*RWMutex)(r).RLock() }
func (r *rlocker) Unlock() { (*RWMutex)(r).RUnlock() }

func (m *RWMutex) RLocker() sync.Locker { return (*rlocker)(m) }

// ---------------------------------------------------------------------------
// Once

type Once struct {
	done atomic.Uint32
	m    Mutex
}

func (o *Once) Do(f func()) {
	pc := callerPC(2)
	hook(OpOnce, unsafe.Pointer(o), pc)
	if o.done.Load() == 1 {
		return
	}
	// Hook already consulted for this call site; take the lock without a second
	// pre-lock yield, keep the post-unlock one.
	p := unsafe.Pointer(&o.m)
	s := o.m.state()
	select {
	case s.c <- struct{}{}:
	default:
		t := addWaiter(p, pc, OpOnce)
		s.c <- struct{}{}
		delWaiter(t)
	}
	setHeld(p, pc, true)
	defer o.m.unlockPC(pc)
	if o.done.Load() == 0 {
		defer o.done.Store(1)
		f()
	}
}

// Opts mirrors the go-deadlock knob set far enough for code that sets it.
var Opts = struct {
	Disable                   bool
	DisableLockOrderDetection bool
	DeadlockTimeout           time.Duration
	OnPotentialDeadlock       func()
	MaxMapSize                int
	PrintAllCurrentGoroutines bool
}{}
