//go:build !race

package sim

import "sync"

const RaceBuild = false

// HMutex is the harness' own mutex.
type HMutex struct{ sync.Mutex }
