package sim

import (
	"hash/fnv"
	"time"
)

// Rand is the only source of choices on the planning side: splitmix64, one
// integer of state, forkable into independent named streams.
type Rand struct{ s uint64 }

func NewRand(seed uint64) *Rand { return &Rand{s: seed} }

func mix(z uint64) uint64 {
	z = (z ^ (z >> 30)) * 0xbf58476d1ce4e5b9
	z = (z ^ (z >> 27)) * 0x94d049bb133111eb
	return z ^ (z >> 31)
}

func (r *Rand) U64() uint64 {
	r.s += 0x9e3779b97f4a7c15
	return mix(r.s)
}

func (r *Rand) Intn(n int) int {
	if n <= 0 {
		return 0
	}
	return int(r.U64() % uint64(n))
}

func (r *Rand) I64n(n int64) int64 {
	if n <= 0 {
		return 0
	}
	return int64(r.U64() % uint64(n))
}

// Range returns a value in [lo, hi].
func (r *Rand) Range(lo, hi int) int {
	if hi <= lo {
		return lo
	}
	return lo + r.Intn(hi-lo+1)
}

func (r *Rand) Float() float64 { return float64(r.U64()>>11) / (1 << 53) }

func (r *Rand) Bool(p float64) bool { return r.Float() < p }

func (r *Rand) Dur(lo, hi time.Duration) time.Duration {
	if hi <= lo {
		return lo
	}
	return lo + time.Duration(r.I64n(int64(hi-lo)+1))
}

// LogDur draws a duration log-uniformly in [lo, hi] (lo >= 1).
func (r *Rand) LogDur(lo, hi time.Duration) time.Duration {
	if lo < 1 {
		lo = 1
	}
	if hi <= lo {
		return lo
	}
	bitsLo, bitsHi := 0, 0
	for v := int64(lo); v > 1; v >>= 1 {
		bitsLo++
	}
	for v := int64(hi); v > 1; v >>= 1 {
		bitsHi++
	}
	b := r.Range(bitsLo, bitsHi)
	v := int64(1) << uint(b)
	v += r.I64n(v)
	if v < int64(lo) {
		v = int64(lo)
	}
	if v > int64(hi) {
		v = int64(hi)
	}
	return time.Duration(v)
}

func HashStr(s string) uint64 {
	h := fnv.New64a()
	h.Write([]byte(s))
	return h.Sum64()
}

// Fork derives an independent stream; the parent is not advanced, so adding a
// fork somewhere does not reshuffle unrelated choices.
func (r *Rand) Fork(label string) *Rand {
	return &Rand{s: mix(r.s ^ HashStr(label) ^ 0xd1b54a32d192ed03)}
}

func (r *Rand) ForkN(n uint64) *Rand {
	return &Rand{s: mix(r.s ^ mix(n+0x632be59bd9b4e019))}
}

func Pick[T any](r *Rand, xs []T) T { return xs[r.Intn(len(xs))] }

// Weighted picks an index with probability proportional to w[i].
func (r *Rand) Weighted(w []int) int {
	t := 0
	for _, x := range w {
		t += x
	}
	if t <= 0 {
		return 0
	}
	k := r.Intn(t)
	for i, x := range w {
		if k < x {
			return i
		}
		k -= x
	}
	return len(w) - 1
}

func (r *Rand) Perm(n int) []int {
	p := make([]int, n)
	for i := range p {
		p[i] = i
	}
	for i := n - 1; i > 0; i-- {
		j := r.Intn(i + 1)
		p[i], p[j] = p[j], p[i]
	}
	return p
}

// Bytes fills a deterministic byte slice.
func (r *Rand) Bytes(n int) []byte {
	b := make([]byte, n)
	var v uint64
	for i := range b {
		if i%8 == 0 {
			v = r.U64()
		}
		b[i] = byte(v)
		v >>= 8
	}
	return b
}

// stream is an io.Reader over a Rand (used for crypto/rand.Reader in a run).
type stream struct{ r *Rand }

func (s stream) Read(p []byte) (int, error) {
	var v uint64
	for i := range p {
		if i%8 == 0 {
			v = s.r.U64()
		}
		p[i] = byte(v)
		v >>= 8
	}
	return len(p), nil
}
