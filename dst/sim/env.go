package sim

import (
	crand "crypto/rand"
	"crypto/sha256"
	"encoding/hex"
	"fmt"
	"io"
	"os"
	"runtime"
	"runtime/debug"
	"sort"
	"strings"
	"sync"
	"testing/synctest"
	"time"
	"unsafe"
	_ "unsafe"

	deadlock "github.com/sasha-s/go-deadlock"
)

//go:linkname dstSimSeed runtime.dstSimSeed
func dstSimSeed(seed uint64, on bool)

//go:linkname dstSimEnter runtime.dstSimEnter
func dstSimEnter()

// ResetFuncs are run before every simulated run (process-global library state).
var ResetFuncs []func()

type Event struct {
	Seq   int
	T     int64
	Kind  string
	Actor int
	Msg   string
}

// Env is the per-run simulation context. Everything in it is touched only by
// goroutines of one bubble running on one P; the mutex is for the -race /
// multi-P variant of C16.
type Env struct {
	Plan  *Plan
	start time.Time

	mu          HMutex
	events      []Event
	viol        []Violation
	stats       Stats
	siteHits    map[string]int
	fired       []StallPoint
	explicit    map[string]int64
	tickets     map[string]int64
	oneShotSeen int
	siteOn      map[string]bool
	stallOff    bool
	keepHist    bool
	lastStal    int64 // fake time of the last stall end
	lastFlt     int64 // fake time of the last fault fired
	onEnd       []func()
	tasks       sync.WaitGroup
	pending     []string // op invocations not yet returned ("" = returned), by id-1
	opSeq       int
	yieldSeq    int // race build: the global yield counter that stands in for per-site hit counts
	shape       []string
	Sample      any
	nontriv     bool
}

var (
	siteCacheMu sync.Mutex
	siteCache   = map[uintptr]string{}
)

// RepoPrefix is stripped from yield-site file names.
var RepoPrefix = "/repo/"

func siteOf(pc uintptr) string {
	siteCacheMu.Lock()
	s, ok := siteCache[pc]
	siteCacheMu.Unlock()
	if ok {
		return s
	}
	s = deadlock.Site(pc)
	if i := strings.Index(s, RepoPrefix); i >= 0 {
		s = s[i+len(RepoPrefix):]
	}
	siteCacheMu.Lock()
	siteCache[pc] = s
	siteCacheMu.Unlock()
	return s
}

func (e *Env) Now() int64 { return int64(time.Since(e.start)) }

// Log appends to the in-memory history. It never yields, never draws
// randomness and never reads a real clock.
//
//go:norace
func (e *Env) Log(actor int, kind, format string, a ...any) {
	msg := format
	if len(a) > 0 {
		msg = fmt.Sprintf(format, a...)
	}
	t := e.Now()
	e.mu.Lock()
	e.events = append(e.events, Event{Seq: len(e.events), T: t, Kind: kind, Actor: actor, Msg: msg})
	e.mu.Unlock()
}

// Shape adds a time-free token to the canonical shape of the run (used to count
// distinct interleavings reached).
//
//go:norace
func (e *Env) Shape(tok string) {
	e.mu.Lock()
	e.shape = append(e.shape, tok)
	e.mu.Unlock()
}

//go:norace
func (e *Env) Violate(class, sig, format string, a ...any) {
	d := fmt.Sprintf(format, a...)
	t := e.Now()
	e.mu.Lock()
	e.viol = append(e.viol, Violation{Class: class, Sig: sig, Detail: d, T: t})
	e.events = append(e.events, Event{Seq: len(e.events), T: t, Kind: "VIOLATION", Actor: -1, Msg: class + " " + sig + " " + d})
	e.mu.Unlock()
}

//go:norace
func (e *Env) Violated() bool {
	e.mu.Lock()
	defer e.mu.Unlock()
	return len(e.viol) > 0
}

//go:norace
func (e *Env) Probe(name string) {
	if RaceBuild {
		return // a map shared by all tasks: left alone in the race build
	}
	e.mu.Lock()
	if e.stats.Probes == nil {
		e.stats.Probes = map[string]int{}
	}
	e.stats.Probes[name]++
	e.mu.Unlock()
}

//go:norace
func (e *Env) ProbeCount(name string) int {
	e.mu.Lock()
	defer e.mu.Unlock()
	return e.stats.Probes[name]
}

//go:norace
func (e *Env) FaultFired(kind string) {
	t := e.Now()
	e.mu.Lock()
	if e.stats.Faults == nil {
		e.stats.Faults = map[string]int{}
	}
	e.stats.Faults[kind]++
	e.lastFlt = t
	e.mu.Unlock()
}

//go:norace
func (e *Env) FaultCount(kind string) int {
	e.mu.Lock()
	defer e.mu.Unlock()
	return e.stats.Faults[kind]
}

//go:norace
func (e *Env) Check() { e.mu.Lock(); e.stats.Checks++; e.mu.Unlock() }

//go:norace
func (e *Env) ChecksN(n int) { e.mu.Lock(); e.stats.Checks += n; e.mu.Unlock() }

//go:norace
func (e *Env) Inconclusive() { e.mu.Lock(); e.stats.Inconclusive++; e.mu.Unlock() }

//go:norace
func (e *Env) NonTrivial() { e.mu.Lock(); e.nontriv = true; e.mu.Unlock() }

// LastDisturbance is the fake time at which the last stall ended or fault fired.
//
//go:norace
func (e *Env) LastDisturbance() int64 {
	e.mu.Lock()
	defer e.mu.Unlock()
	if e.lastFlt > e.lastStal {
		return e.lastFlt
	}
	return e.lastStal
}

// StallsOverlapping sums the durations of injected stalls that overlap the
// fake-time window [from, to]: the slack an oracle grants a latency bound.
//
//go:norace
func (e *Env) StallsOverlapping(from, to int64) int64 {
	e.mu.Lock()
	defer e.mu.Unlock()
	var sum int64
	for _, f := range e.fired {
		if f.At <= to && f.At+f.Ns >= from {
			sum += f.Ns
		}
	}
	return sum
}

//go:norace
func (e *Env) StallTotal() int64 { e.mu.Lock(); defer e.mu.Unlock(); return e.stats.StallNs }

// StopStalls turns the yield oracle off (used for the fault-free tail of a run
// in which liveness is asserted).
//
//go:norace
func (e *Env) StopStalls() { e.mu.Lock(); e.stallOff = true; e.mu.Unlock() }

// Go starts a simulated task.
func (e *Env) Go(f func()) {
	e.tasks.Add(1)
	go func() {
		defer e.tasks.Done()
		f()
	}()
}

// SleepUntil blocks the calling task until fake time `at` (ns since start).
func (e *Env) SleepUntil(at int64) {
	if d := at - e.Now(); d > 0 {
		time.Sleep(time.Duration(d))
	}
}

// Invoke / Return bracket a public-API call made by an actor, for the
// "operation never returned" watchdog and for linearizability stamps.
//
//go:norace
func (e *Env) Invoke(actor int, what string) (id int, seq int) {
	t := e.Now()
	e.mu.Lock()
	e.opSeq++
	id = e.opSeq
	e.pending = append(e.pending, fmt.Sprintf("actor=%d %s (invoked t=%d)", actor, what, t))
	seq = len(e.events)
	e.events = append(e.events, Event{Seq: seq, T: t, Kind: "invoke", Actor: actor, Msg: what})
	e.stats.OpsRun++
	e.mu.Unlock()
	return
}

//go:norace
func (e *Env) Return(actor, id int, what string) (seq int) {
	t := e.Now()
	e.mu.Lock()
	if id >= 1 && id <= len(e.pending) {
		e.pending[id-1] = ""
	}
	seq = len(e.events)
	e.events = append(e.events, Event{Seq: seq, T: t, Kind: "return", Actor: actor, Msg: what})
	e.mu.Unlock()
	return
}

// ReturnSeq logs a return event without touching the pending table (for operations bracketed by the rig itself).
//
//go:norace
func (e *Env) ReturnSeq(actor int, what string) (seq int) {
	t := e.Now()
	e.mu.Lock()
	seq = len(e.events)
	e.events = append(e.events, Event{Seq: seq, T: t, Kind: "return", Actor: actor, Msg: what})
	for i, s := range e.pending {
		if s != "" && strings.HasPrefix(s, fmt.Sprintf("actor=%d %s ", actor, what)) {
			e.pending[i] = ""
			break
		}
	}
	e.mu.Unlock()
	return
}

// Pending lists API calls that have not returned.
//
//go:norace
func (e *Env) Pending() []string {
	e.mu.Lock()
	defer e.mu.Unlock()
	var out []string
	for _, s := range e.pending {
		if s != "" {
			out = append(out, s)
		}
	}
	return out
}

func h2(a, b uint64) uint64 { return mix(a ^ mix(b+0x9e3779b97f4a7c15)) }

func (e *Env) siteEnabled(site string) bool {
	on, ok := e.siteOn[site]
	if ok {
		return on
	}
	sc := &e.Plan.Stall
	on = true
	if len(sc.Focus) > 0 {
		on = false
		for _, f := range sc.Focus {
			if strings.Contains(site, f) {
				on = true
				break
			}
		}
	}
	if on && sc.SitePct < 100 {
		on = int(h2(sc.Seed, HashStr(site))%100) < sc.SitePct
	}
	e.siteOn[site] = on
	return on
}

// yield is the lockshim hook: the simulator's scheduling decision point.
func (e *Env) yield(op deadlock.Op, lock unsafe.Pointer, pc uintptr) {
	if RaceBuild {
		e.yieldRace(op, pc)
		return
	}
	site := siteOf(pc)
	if op == deadlock.OpUnlock || op == deadlock.OpRUnlock {
		site += "+u"
	}
	e.mu.Lock()
	n := e.siteHits[site]
	e.siteHits[site] = n + 1
	e.stats.Yields++
	if debugYields {
		e.events = append(e.events, Event{Seq: len(e.events), T: int64(time.Since(e.start)), Kind: "yield", Actor: -2, Msg: fmt.Sprintf("%s#%d", site, n)})
	}
	sc := &e.Plan.Stall
	var ns int64
	if !e.stallOff {
		if sc.UseExplicit {
			ns = e.explicit[fmt.Sprintf("%s#%d", site, n)]
		} else {
			if sc.OneShot.Ns > 0 && strings.HasPrefix(site, sc.OneShot.Prefix) {
				if e.oneShotSeen == sc.OneShot.Nth {
					ns = sc.OneShot.Ns
				}
				e.oneShotSeen++
			}
			if ns > 0 {
				// the one-shot stall
			} else if t, ok := e.tickets[fmt.Sprintf("%s#%d", site, n)]; ok {
				ns = t
			} else if sc.RatePPM > 0 && e.stats.StallNs < sc.BudgetNs && e.siteEnabled(site) {
				h := h2(h2(sc.Seed, HashStr(site)), uint64(n))
				if int(h%1000000) < sc.RatePPM {
					h = mix(h)
					switch {
					case sc.MinNs > 0 && sc.MaxNs > sc.MinNs:
						ns = sc.MinNs + int64(mix(h+1)%uint64(sc.MaxNs-sc.MinNs))
					case h%4 < 2 || sc.MaxNs <= 1:
						ns = 1 // "everything else runnable goes first"
					default:
						// log-uniform in [1, MaxNs]
						bits := 1
						for v := sc.MaxNs; v > 1; v >>= 1 {
							bits++
						}
						b := uint(mix(h+1) % uint64(bits))
						ns = int64(1)<<b + int64(mix(h+2)%uint64(int64(1)<<b))
						if ns > sc.MaxNs {
							ns = sc.MaxNs
						}
					}
				}
			}
		}
	}
	if ns > 0 {
		e.stats.Stalls++
		e.stats.StallNs += ns
		now := int64(time.Since(e.start))
		e.fired = append(e.fired, StallPoint{Site: site, Hit: n, Ns: ns, At: now})
		msg := fmt.Sprintf("%s#%d %dns", site, n, ns)
		if debugStacks {
			var buf [4096]byte
			k := runtime.Stack(buf[:], false)
			msg += "\n" + string(buf[:k])
		}
		e.events = append(e.events, Event{Seq: len(e.events), T: now, Kind: "stall", Actor: -2, Msg: msg})
	}
	e.mu.Unlock()
	if ns > 0 {
		time.Sleep(time.Duration(ns))
		t := e.Now()
		e.mu.Lock()
		if t > e.lastStal {
			e.lastStal = t
		}
		e.mu.Unlock()
	}
}

// yieldRace is the yield oracle of the race build: the same decision rule, keyed by the call site's
// pc and a global yield counter instead of per-site hit counts, and without any shared map, mutex or
// atomic (see RaceBuild). The site's name is only computed when a stall actually fires.
//
//go:norace
func (e *Env) yieldRace(op deadlock.Op, pc uintptr) {
	n := e.yieldSeq
	e.yieldSeq++
	e.stats.Yields++
	if e.stallOff {
		return
	}
	sc := &e.Plan.Stall
	u := uint64(0)
	if op == deadlock.OpUnlock || op == deadlock.OpRUnlock {
		u = 1
	}
	var ns int64
	var site string
	if sc.UseExplicit {
		if len(e.explicit) == 0 {
			return
		}
		site = raceSite(pc, u)
		ns = e.explicit[fmt.Sprintf("%s#%d", site, n)]
	} else {
		if sc.RatePPM == 0 || e.stats.StallNs >= sc.BudgetNs {
			return
		}
		h := h2(h2(sc.Seed, uint64(pc)<<1|u), uint64(n))
		if int(h%1000000) >= sc.RatePPM {
			return
		}
		site = raceSite(pc, u)
		on := true
		if len(sc.Focus) > 0 {
			on = false
			for _, f := range sc.Focus {
				if strings.Contains(site, f) {
					on = true
					break
				}
			}
		}
		if on && sc.SitePct < 100 {
			on = int(h2(sc.Seed, HashStr(site))%100) < sc.SitePct
		}
		if !on {
			return
		}
		h = mix(h)
		if sc.MinNs > 0 && sc.MaxNs > sc.MinNs {
			ns = sc.MinNs + int64(mix(h+1)%uint64(sc.MaxNs-sc.MinNs))
		} else if h%4 < 2 || sc.MaxNs <= 1 {
			ns = 1
		} else {
			bits := 1
			for v := sc.MaxNs; v > 1; v >>= 1 {
				bits++
			}
			b := uint(mix(h+1) % uint64(bits))
			ns = int64(1)<<b + int64(mix(h+2)%uint64(int64(1)<<b))
			if ns > sc.MaxNs {
				ns = sc.MaxNs
			}
		}
	}
	if ns <= 0 {
		return
	}
	e.stats.Stalls++
	e.stats.StallNs += ns
	now := int64(time.Since(e.start))
	e.fired = append(e.fired, StallPoint{Site: site, Hit: n, Ns: ns, At: now})
	e.events = append(e.events, Event{Seq: len(e.events), T: now, Kind: "stall", Actor: -2, Msg: fmt.Sprintf("%s#%d %dns", site, n, ns)})
	time.Sleep(time.Duration(ns))
	if t := e.Now(); t > e.lastStal {
		e.lastStal = t
	}
}

func raceSite(pc uintptr, u uint64) string {
	s := deadlock.Site(pc)
	if i := strings.Index(s, RepoPrefix); i >= 0 {
		s = s[i+len(RepoPrefix):]
	}
	if u == 1 {
		s += "+u"
	}
	return s
}

// OnEnd registers a function to run after the bubble has ended (outside it).
func (e *Env) OnEnd(f func()) { e.onEnd = append(e.onEnd, f) }

// Options for Run.
type RunOpts struct {
	KeepHistory bool
	MultiP      bool // C16 race variant: do not pin scheduling decisions, no digest claims
}

var origReader io.Reader = crand.Reader

var debugStacks = os.Getenv("DST_DEBUG_STACKS") != ""
var debugYields = os.Getenv("DST_DEBUG_YIELDS") != ""

// Run executes body inside a fresh bubble under the plan's seeds and returns
// the result. It may be called many times per process.
func Run(plan *Plan, opts RunOpts, body func(e *Env)) (res *Result) {
	e := &Env{
		Plan:     plan,
		siteHits: map[string]int{},
		explicit: map[string]int64{},
		tickets:  map[string]int64{},
		siteOn:   map[string]bool{},
		keepHist: opts.KeepHistory,
	}
	for _, sp := range plan.Stall.Explicit {
		e.explicit[fmt.Sprintf("%s#%d", sp.Site, sp.Hit)] = sp.Ns
	}
	for _, sp := range plan.Stall.Tickets {
		e.tickets[fmt.Sprintf("%s#%d", sp.Site, sp.Hit)] = sp.Ns
	}
	res = &Result{ID: plan.ID(), Index: plan.Index, Mode: plan.Mode}

	runtime.GC() // the only collection point: between runs (GOGC=off in workers)
	deadlock.NewEpoch()
	deadlock.Hook = e.yield
	deadlock.Track = !RaceBuild // the registries are a global mutex: see RaceBuild
	crand.Reader = stream{NewRand(plan.Seed).Fork("crypto")}
	wall := time.Now()
	dstSimSeed(mix(plan.Seed^0x5eed), true)

	func() {
		defer func() {
			if r := recover(); r != nil {
				msg := fmt.Sprint(r)
				switch {
				case strings.Contains(msg, "blocked goroutines remain"):
					// expected: the library leaves goroutines behind (cleaners, drains)
				case strings.Contains(msg, "all goroutines in bubble are blocked"):
					// Every task, the root included, is blocked for good and no timer is left: some call
					// into the library never returned. Reported as a violation (hang), with the lock
					// waiters and holders the shim knows about.
					var ws []string
					for _, w := range deadlock.Waiters() {
						ws = append(ws, siteOf(w.PC))
					}
					sort.Strings(ws)
					sig := "no lock waiter"
					if len(ws) > 0 {
						sig = "waiting at " + ws[0]
					}
					e.mu.Lock()
					e.viol = append(e.viol, Violation{Class: plan.Prop + "/hang", Sig: sig,
						Detail: fmt.Sprintf("all tasks blocked forever (bubble deadlock). pending API calls: %v; lock waiters: %v; locks held: %v", pendingOf(e), ws, HeldLocks())})
					e.mu.Unlock()
					if debugStacks {
						buf := make([]byte, 1<<20)
						k := runtime.Stack(buf, true)
						res.Infra += "\n" + string(buf[:k])
					}
				default:
					res.Infra = "panic on bubble root: " + msg + "\n" + string(debug.Stack())
				}
			}
		}()
		synctest.RunRaw(func() {
			dstSimEnter()
			e.start = time.Now()
			// process-global library state is reset inside the bubble: its package-level
			// locks then get channels that belong to this bubble
			for _, f := range ResetFuncs {
				f()
			}
			body(e)
			e.stats.SimNs = e.Now()
		})
	}()

	dstSimSeed(0, false)
	crand.Reader = origReader
	deadlock.Hook = nil
	for _, f := range e.onEnd {
		f()
	}

	e.mu.Lock()
	defer e.mu.Unlock()
	e.stats.Events = len(e.events)
	e.stats.Sites = len(e.siteHits)
	e.stats.WallUs = time.Since(wall).Microseconds()
	res.Stats = e.stats
	res.Violations = e.viol
	res.Fired = e.fired
	res.Sample = e.Sample
	res.NonTrivial = e.nontriv

	hd := sha256.New()
	for _, ev := range e.events {
		fmt.Fprintf(hd, "%d|%d|%s|%d|%s\n", ev.Seq, ev.T, ev.Kind, ev.Actor, ev.Msg)
	}
	res.Digest = hex.EncodeToString(hd.Sum(nil))[:24]
	sd := sha256.New()
	for _, f := range e.fired {
		fmt.Fprintf(sd, "%s#%d:%d\n", f.Site, f.Hit, f.Ns)
	}
	res.SchedDigest = hex.EncodeToString(sd.Sum(nil))[:16]
	sh := sha256.New()
	for _, s := range e.shape {
		fmt.Fprintf(sh, "%s\n", s)
	}
	res.ShapeDigest = hex.EncodeToString(sh.Sum(nil))[:16]
	if opts.KeepHistory {
		for _, ev := range e.events {
			res.History = append(res.History, fmt.Sprintf("%6d t=%-14d a=%-2d %-10s %s", ev.Seq, ev.T, ev.Actor, ev.Kind, ev.Msg))
		}
	}
	return res
}

// Events returns a copy of the history so far (oracles read it at end of run).
func (e *Env) Events() []Event {
	e.mu.Lock()
	defer e.mu.Unlock()
	return append([]Event(nil), e.events...)
}

// HeldLocks renders the locks held right now (for end-of-run "no mutex left held").
func HeldLocks() []string {
	var out []string
	for _, h := range deadlock.Held() {
		s := deadlock.Site(h.PC)
		if i := strings.Index(s, RepoPrefix); i >= 0 {
			s = s[i+len(RepoPrefix):]
		}
		out = append(out, fmt.Sprintf("%s (writer=%v readers=%d)", s, h.Writer, h.Readers))
	}
	sort.Strings(out)
	return out
}

func pendingOf(e *Env) []string {
	var out []string
	for _, s := range e.pending {
		if s != "" {
			out = append(out, s)
		}
	}
	return out
}

// Try runs f on its own task and waits at most d (fake time) for it to return. Oracles use it for
// every library call they make from the root task, so that a call that hangs is a finding.
func (e *Env) Try(d time.Duration, f func()) bool {
	done := make(chan struct{})
	go func() {
		defer close(done)
		f()
	}()
	select {
	case <-done:
		return true
	case <-time.After(d):
		return false
	}
}
