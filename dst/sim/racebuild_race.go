//go:build race

package sim

// RaceBuild: this is the race-detector build of the simulator (the worker of C16's race mode).
//
// The harness must then be invisible to the detector: every mutex, atomic or channel the harness shares
// between tasks is a happens-before edge in the detector's eyes, and a global one (the history log,
// the yield oracle's hit table, lockshim's registry) orders every task after every other at every
// lock operation - the library's own races would all look ordered. In this build the harness' shared
// state is therefore touched without synchronisation (safe: one P, no preemption, nothing blocks
// inside these sections) from functions the compiler does not instrument (//go:norace).
const RaceBuild = true

// HMutex is the harness' own mutex: a no-op in this build.
type HMutex struct{}

func (*HMutex) Lock()   {}
func (*HMutex) Unlock() {}
