package sim

import (
	"encoding/json"
	"fmt"
	"os"
	"sort"
)

// Op is one scripted action of one actor at one fake instant. The meaning of
// Kind and of the argument vectors belongs to the property that generated it;
// the generic shape is what lets one minimiser serve all properties.
type Op struct {
	At    int64    `json:"at"` // ns since run start (fake clock)
	Actor int      `json:"actor"`
	Kind  string   `json:"kind"`
	I     []int64  `json:"i,omitempty"`
	S     []string `json:"s,omitempty"`
}

func (o Op) Int(k int) int64 {
	if k < len(o.I) {
		return o.I[k]
	}
	return 0
}

func (o Op) Str(k int) string {
	if k < len(o.S) {
		return o.S[k]
	}
	return ""
}

// Fault is one scheduled network / peer fault.
type Fault struct {
	At     int64   `json:"at"`               // fake time trigger, or -1 when byte-triggered
	Kind   string  `json:"kind"`             // cut, fin, blackhole, stall, refuse, heal, ...
	Target string  `json:"target,omitempty"` // connection selector, e.g. "c0#1" (client 0, dial ordinal 1), "c0*" (all of client 0), "*"
	Dir    string  `json:"dir,omitempty"`    // "", "c2s", "s2c"
	I      []int64 `json:"i,omitempty"`      // kind-specific: byte offset, duration, ...
}

func (f Fault) Int(k int) int64 {
	if k < len(f.I) {
		return f.I[k]
	}
	return 0
}

// StallPoint names one yield-point decision: the n-th time control reaches a
// lock operation at Site, pause Ns fake nanoseconds.
type StallPoint struct {
	Site string `json:"site"`
	Hit  int    `json:"hit"`
	Ns   int64  `json:"ns"`
	At   int64  `json:"at,omitempty"` // fake time at which it fired (informational; not part of the key)
}

type StallCfg struct {
	Seed    uint64 `json:"seed"`
	RatePPM int    `json:"rate_ppm"` // probability per yield point, per million
	MaxNs   int64  `json:"max_ns"`   // longest random stall
	// MinNs > 0: every random stall lasts between MinNs and MaxNs (uniform) instead of the default
	// mix of "1 ns" and log-uniform durations.
	MinNs   int64 `json:"min_ns,omitempty"`
	SitePct int   `json:"site_pct"` // percentage of sites enabled in this run (swarm)
	// Focus restricts random stalls to sites whose file:line contains one of these substrings (empty = all).
	Focus []string `json:"focus,omitempty"`
	// OneShot: one deliberate stall of Ns at the Nth yield point (counted from 0 over the run) whose
	// site starts with Prefix (PCT-style: one deep ordering, the rest of the schedule undisturbed).
	// Applied on top of the random stalls; recorded like them, so replays and minimisation see it
	// as an ordinary explicit stall.
	OneShot struct {
		Prefix string `json:"prefix,omitempty"`
		Nth    int    `json:"nth,omitempty"`
		Ns     int64  `json:"ns,omitempty"`
	} `json:"one_shot,omitempty"`
	// Tickets are added on top of the random stalls (PCT-style deliberate deep orderings).
	Tickets []StallPoint `json:"tickets,omitempty"`
	// Explicit, when UseExplicit is set, replaces random selection entirely (replay / minimise mode).
	UseExplicit bool         `json:"use_explicit,omitempty"`
	Explicit    []StallPoint `json:"explicit,omitempty"`
	BudgetNs    int64        `json:"budget_ns"` // total stall time allowed in the run
}

// Plan is everything that decides a run. A run is a pure function of the plan
// and the code.
type Plan struct {
	Prop    string            `json:"prop"`
	Mode    string            `json:"mode"`
	Seed    uint64            `json:"seed"`  // runtime stream / crypto stream / per-connection streams derive from it
	VSeed   uint64            `json:"vseed"` // the VERIF_SEED this plan came from
	Index   int               `json:"index"` // run index under VSeed
	Cfg     map[string]int64  `json:"cfg,omitempty"`
	CfgS    map[string]string `json:"cfgs,omitempty"`
	Ops     []Op              `json:"ops,omitempty"`
	Faults  []Fault           `json:"faults,omitempty"`
	Stall   StallCfg          `json:"stall"`
	Horizon int64             `json:"horizon"` // ns of fake time after which end-of-run checks start

	// Expect is filled in replay files: the violation class and digest the file must reproduce.
	Expect *Expect `json:"expect,omitempty"`
}

type Expect struct {
	Class  string `json:"class"`
	Sig    string `json:"sig"`
	Digest string `json:"digest,omitempty"`
	Detail string `json:"detail,omitempty"`
}

func (p *Plan) C(key string) int64      { return p.Cfg[key] }
func (p *Plan) B(key string) bool       { return p.Cfg[key] != 0 }
func (p *Plan) CS(key string) string    { return p.CfgS[key] }
func (p *Plan) Set(key string, v int64) { p.Cfg[key] = v }
func (p *Plan) SetB(key string, v bool) {
	if v {
		p.Cfg[key] = 1
	} else {
		p.Cfg[key] = 0
	}
}

func NewPlan(prop, mode string, vseed uint64, index int) *Plan {
	r := NewRand(vseed).Fork(prop).Fork(mode).ForkN(uint64(index))
	return &Plan{
		Prop: prop, Mode: mode, VSeed: vseed, Index: index,
		Seed: r.U64(),
		Cfg:  map[string]int64{}, CfgS: map[string]string{},
	}
}

// Rand returns the planning stream of this plan (pure function of prop, mode, vseed, index).
func (p *Plan) Rand() *Rand {
	return NewRand(p.VSeed).Fork(p.Prop).Fork(p.Mode).ForkN(uint64(p.Index)).Fork("plan")
}

func (p *Plan) ID() string { return fmt.Sprintf("%s/%s/%d/%d", p.Prop, p.Mode, p.VSeed, p.Index) }

func (p *Plan) SortOps() {
	sort.SliceStable(p.Ops, func(i, j int) bool { return p.Ops[i].At < p.Ops[j].At })
}

func (p *Plan) Clone() *Plan {
	b, _ := json.Marshal(p)
	var q Plan
	_ = json.Unmarshal(b, &q)
	if q.Cfg == nil {
		q.Cfg = map[string]int64{}
	}
	if q.CfgS == nil {
		q.CfgS = map[string]string{}
	}
	return &q
}

func LoadPlan(path string) (*Plan, error) {
	b, err := os.ReadFile(path)
	if err != nil {
		return nil, err
	}
	var p Plan
	if err := json.Unmarshal(b, &p); err != nil {
		return nil, err
	}
	if p.Cfg == nil {
		p.Cfg = map[string]int64{}
	}
	if p.CfgS == nil {
		p.CfgS = map[string]string{}
	}
	return &p, nil
}

func (p *Plan) Save(path string) error {
	b, err := json.MarshalIndent(p, "", " ")
	if err != nil {
		return err
	}
	return os.WriteFile(path, b, 0o644)
}

// Violation is one oracle failure. Class is the stable name of the oracle
// ("C19/lost-wakeup"); Sig narrows it to the specific input / site / history
// shape (what known_findings.json matches on); Detail is for humans.
type Violation struct {
	Class  string `json:"class"`
	Sig    string `json:"sig"`
	Detail string `json:"detail"`
	T      int64  `json:"t"`
}

type Stats struct {
	SimNs        int64          `json:"sim_ns"`
	Events       int            `json:"events"`
	OpsRun       int            `json:"ops_run"`
	Yields       int            `json:"yields"`
	Stalls       int            `json:"stalls"`
	StallNs      int64          `json:"stall_ns"`
	Sites        int            `json:"sites"`
	Faults       map[string]int `json:"faults,omitempty"`
	Probes       map[string]int `json:"probes,omitempty"`
	Inconclusive int            `json:"inconclusive,omitempty"`
	Checks       int            `json:"checks"` // oracle evaluations that could have failed
	WallUs       int64          `json:"wall_us"`
}

type Result struct {
	ID          string       `json:"id"`
	Index       int          `json:"index"`
	Mode        string       `json:"mode"`
	Violations  []Violation  `json:"violations,omitempty"`
	Digest      string       `json:"digest"`       // history digest (determinism)
	SchedDigest string       `json:"sched_digest"` // digest of the (site,hit,ns) stall decisions that fired
	ShapeDigest string       `json:"shape_digest"` // canonical history digest without times (distinct-interleaving measure)
	Stats       Stats        `json:"stats"`
	Fired       []StallPoint `json:"fired,omitempty"`
	History     []string     `json:"history,omitempty"`
	Infra       string       `json:"infra,omitempty"` // simulator trouble (never a violation)
	NonTrivial  bool         `json:"nontrivial"`
	Sample      any          `json:"sample,omitempty"`
}
