// Package world builds the real system under simulation: sio/eio servers behind
// net/http on a simulated listener, and sio/eio clients whose HTTP and
// WebSocket dials go through the simulated network.
package world

import (
	"fmt"
	"net/http"
	"os"
	"strings"
	"sync"
	"time"

	sio "github.com/karagenc/socket.io-go"
	eio "github.com/karagenc/socket.io-go/engine.io"
	"nhooyr.io/websocket"

	"verif/dst/sim"
	"verif/dst/simnet"
)

const Host = "srv:80"
const URL = "http://srv:80/socket.io/"

type World struct {
	E   *sim.Env
	Net *simnet.Net

	mu      sync.Mutex
	Srv     *sio.Server
	HTTP    *http.Server
	L       *simnet.Listener
	srvGen  int
	Dbg     *ProbeDebugger
	EIODbg  *ProbeDebugger
	CliDbg  *ProbeDebugger
	CliEDbg *ProbeDebugger
}

type ServerOpts struct {
	Recovery       bool
	MaxDisconnect  time.Duration
	UseMiddlewares bool
	PingInterval   time.Duration
	PingTimeout    time.Duration
	UpgradeTimeout time.Duration
	ConnectTimeout time.Duration
	MaxBufferSize  int64
	DisableMaxBuf  bool
	AcceptAny      bool
	Configure      func(s *sio.Server) // register namespaces / handlers before serving
}

func New(e *sim.Env, cfg simnet.Config) *World {
	w := &World{E: e, Net: simnet.New(e, cfg)}
	w.Dbg = NewProbeDebugger(e, "sio/srv")
	w.EIODbg = NewProbeDebugger(e, "eio/srv")
	w.CliDbg = NewProbeDebugger(e, "sio/cli")
	w.CliEDbg = NewProbeDebugger(e, "eio/cli")
	return w
}

// NetConfigFromPlan reads the network knobs every world shares.
func NetConfigFromPlan(p *sim.Plan) simnet.Config {
	return simnet.Config{
		LatencyNs:   p.C("lat_us") * 1000,
		JitterNs:    p.C("jit_us") * 1000,
		Chunking:    p.B("chunk"),
		Tap:         p.B("tap"),
		KeepAliveNs: p.C("keepalive_s") * 1_000_000_000,
	}
}

// DrawNet fills the shared network knobs of a plan.
func DrawNet(p *sim.Plan, r *sim.Rand) {
	lats := []int64{0, 50, 2000, 35000, 150000}
	p.Set("lat_us", lats[r.Weighted([]int{2, 2, 3, 3, 1})])
	if p.C("lat_us") > 0 && r.Bool(0.6) {
		p.Set("jit_us", p.C("lat_us")/int64(r.Range(1, 8)))
	} else {
		p.Set("jit_us", 0)
	}
	p.SetB("chunk", r.Bool(0.6))
}

func (w *World) ServerConfig(o ServerOpts) *sio.ServerConfig {
	c := &sio.ServerConfig{
		AcceptAnyNamespace: o.AcceptAny,
		ConnectTimeout:     o.ConnectTimeout,
		Debugger:           w.Dbg,
		EIO: eio.ServerConfig{
			PingInterval:         o.PingInterval,
			PingTimeout:          o.PingTimeout,
			UpgradeTimeout:       o.UpgradeTimeout,
			MaxBufferSize:        o.MaxBufferSize,
			DisableMaxBufferSize: o.DisableMaxBuf,
			Debugger:             w.EIODbg,
			WebSocketAcceptOptions: &websocket.AcceptOptions{
				CompressionMode: websocket.CompressionDisabled,
			},
		},
	}
	if o.Recovery {
		c.ServerConnectionStateRecovery = sio.ServerConnectionStateRecovery{
			Enabled:                  true,
			MaxDisconnectionDuration: o.MaxDisconnect,
			UseMiddlewares:           o.UseMiddlewares,
		}
	}
	return c
}

// StartServer creates a new sio.Server (empty memory) and serves it on the simulated address.
func (w *World) StartServer(o ServerOpts) *sio.Server {
	srv := sio.NewServer(w.ServerConfig(o))
	if o.Configure != nil {
		o.Configure(srv)
	}
	if err := srv.Run(); err != nil {
		w.E.Violate("harness/server-run", "world", "%v", err)
	}
	w.Serve(srv)
	w.mu.Lock()
	w.Srv = srv
	w.mu.Unlock()
	return srv
}

// Serve puts any http.Handler on the simulated listener.
func (w *World) Serve(h http.Handler) {
	l := w.Net.Listen(Host)
	if debugLog {
		inner := h
		h = http.HandlerFunc(func(rw http.ResponseWriter, r *http.Request) {
			w.E.Log(-4, "http.req", "%s %s cl=%d", r.Method, r.URL.RawQuery, r.ContentLength)
			inner.ServeHTTP(rw, r)
			w.E.Log(-4, "http.done", "%s %s", r.Method, r.URL.RawQuery)
		})
	}
	hs := &http.Server{Handler: h}
	w.mu.Lock()
	w.L, w.HTTP = l, hs
	w.srvGen++
	w.mu.Unlock()
	go hs.Serve(l)
}

// StopListener makes new dials fail (server process gone) without touching established connections.
func (w *World) StopListener() {
	w.mu.Lock()
	l := w.L
	w.mu.Unlock()
	if l != nil {
		l.Close()
	}
}

type ClientOpts struct {
	Transports           []string
	UpgradeTimeout       time.Duration
	NoReconnection       bool
	ReconnectionAttempts uint32
	ReconnectionDelay    *time.Duration
	ReconnectionDelayMax *time.Duration
	RandomizationFactor  *float32
	UpgradeDone          func(string)
}

// EIOClientConfig builds the Engine.IO client configuration of client number id:
// HTTP (polling) dials carry the dialer id "c<id>p", WebSocket dials "c<id>w".
func (w *World) EIOClientConfig(id int, o ClientOpts) eio.ClientConfig {
	tr := o.Transports
	if len(tr) == 0 {
		tr = []string{"polling", "websocket"}
	}
	pd := w.Net.Dialer("c" + itoa(id) + "p")
	wd := w.Net.Dialer("c" + itoa(id) + "w")
	return eio.ClientConfig{
		Transports:     tr, // never the default: it contains webtransport, whose dialer opens a real UDP socket
		UpgradeTimeout: o.UpgradeTimeout,
		UpgradeDone:    o.UpgradeDone,
		HTTPTransport:  &http.Transport{DialContext: pd, MaxIdleConnsPerHost: 8},
		WebSocketDialOptions: &websocket.DialOptions{
			HTTPClient:      &http.Client{Transport: &http.Transport{DialContext: wd}},
			CompressionMode: websocket.CompressionDisabled,
		},
		Debugger: w.CliEDbg,
	}
}

func (w *World) NewManager(id int, o ClientOpts) *sio.Manager {
	return w.NewManagerEIO(id, o, nil)
}

// NewManagerEIO: a manager created with a given Engine.IO configuration (an application that creates
// several clients from one configuration value shares its pointers - dial options, HTTP transport -
// between them); nil = a configuration of its own.
func (w *World) NewManagerEIO(id int, o ClientOpts, shared *eio.ClientConfig) *sio.Manager {
	cfg := w.EIOClientConfig(id, o)
	if shared != nil {
		cfg = *shared
	}
	return sio.NewManager(URL, &sio.ManagerConfig{
		EIO:                  cfg,
		NoReconnection:       o.NoReconnection,
		ReconnectionAttempts: o.ReconnectionAttempts,
		ReconnectionDelay:    o.ReconnectionDelay,
		ReconnectionDelayMax: o.ReconnectionDelayMax,
		RandomizationFactor:  o.RandomizationFactor,
		Debugger:             w.CliDbg,
	})
}

func itoa(i int) string {
	if i == 0 {
		return "0"
	}
	var b []byte
	for i > 0 {
		b = append([]byte{byte('0' + i%10)}, b...)
		i /= 10
	}
	return string(b)
}

// ---------------------------------------------------------------------------
// ProbeDebugger counts the library's own log messages per run (reach probes)
// through the Debugger seam the library already has.

type ProbeDebugger struct {
	e      *sim.Env
	prefix string
}

func NewProbeDebugger(e *sim.Env, prefix string) *ProbeDebugger {
	return &ProbeDebugger{e: e, prefix: prefix}
}

var probed = []string{
	"Packet is discarded", "Invalid state", "pingTimeout exceeded", "timed out", "Skipping reconnect",
	"Maximum attempts reached", "Ignored remove", "Ignoring remove", "ignore packet received after disconnection",
	"No namespace joined yet", "Handshake error", "Connection received after server was closed",
	"Timeout occured for ack", "Removing packet with ack ID", "`session` is nil", "Connection state recovery is enabled",
	"UpgradeTo", "upgraded to", "Reconnect failed", "Reconnected",
}

var debugLog = os.Getenv("DST_DEBUG_LOG") != ""

func (d *ProbeDebugger) Log(main string, v ...any) {
	if debugLog {
		d.e.Log(-4, "dbg", "%s %s %s", d.prefix, main, fmt.Sprint(v...))
	}
	for _, k := range probed {
		if strings.Contains(main, k) {
			d.e.Probe(d.prefix + ": " + k)
			return
		}
	}
	for _, x := range v {
		if s, ok := x.(string); ok {
			for _, k := range probed {
				if strings.Contains(s, k) {
					d.e.Probe(d.prefix + ": " + k)
					return
				}
			}
		}
	}
}

func (d *ProbeDebugger) WithContext(context string) eio.Debugger { return d }
func (d *ProbeDebugger) WithDynamicContext(context string, _ func() string) eio.Debugger {
	return d
}
