package world

import (
	"fmt"
	"sync"
	"time"

	sio "github.com/karagenc/socket.io-go"

	"verif/dst/sim"
)

// LifeEvent is one lifecycle callback seen by the application.
type LifeEvent struct {
	At     int64
	Kind   string // connect, connect_error, disconnect, disconnecting, error, open, close, reconnect, reconnect_attempt, reconnect_error, reconnect_failed
	Reason string
	ID     string
}

// SioClient wraps one manager + one socket of one namespace, recording its lifecycle.
type SioClient struct {
	W       *World
	Idx     int
	Manager *sio.Manager
	Socket  sio.ClientSocket
	Nsp     string

	// OnLife, when set, is called after each lifecycle event was recorded.
	OnLife func(kind string)

	mu   sync.Mutex
	Life []LifeEvent
}

func (c *SioClient) add(kind, reason string) {
	defer func() {
		if c.OnLife != nil {
			c.OnLife(kind)
		}
	}()
	id := ""
	if c.Socket != nil {
		id = string(c.Socket.ID())
	}
	now := c.W.E.Now()
	c.mu.Lock()
	c.Life = append(c.Life, LifeEvent{At: now, Kind: kind, Reason: reason, ID: id})
	c.mu.Unlock()
	c.W.E.Log(100+c.Idx, "cli."+kind, "c%d%s id=%s %s", c.Idx, c.Nsp, id, reason)
}

func (c *SioClient) Events() []LifeEvent {
	c.mu.Lock()
	defer c.mu.Unlock()
	return append([]LifeEvent(nil), c.Life...)
}

func (c *SioClient) Count(kind string) int {
	n := 0
	for _, ev := range c.Events() {
		if ev.Kind == kind {
			n++
		}
	}
	return n
}

// NewSioClient creates manager idx and its socket for nsp; Connect is left to the caller.
func (w *World) NewSioClient(idx int, nsp string, o ClientOpts, sc *sio.ClientSocketConfig) *SioClient {
	m := w.NewManager(idx, o)
	return w.AttachSocket(&SioClient{W: w, Idx: idx, Manager: m, Nsp: nsp}, sc, true)
}

// AttachSocket creates the socket of c.Nsp on c.Manager and wires the recorders.
func (w *World) AttachSocket(c *SioClient, sc *sio.ClientSocketConfig, managerEvents bool) *SioClient {
	c.Socket = c.Manager.Socket(c.Nsp, sc)
	c.Socket.OnConnect(func() { c.add("connect", "") })
	c.Socket.OnConnectError(func(err any) { c.add("connect_error", fmt.Sprint(err)) })
	c.Socket.OnDisconnect(func(reason sio.Reason) { c.add("disconnect", string(reason)) })
	if managerEvents {
		m := c.Manager
		m.OnError(func(err error) { c.add("error", err.Error()) })
		m.OnClose(func(reason sio.Reason, err error) {
			if err != nil {
				c.W.E.Log(100+c.Idx, "cli.close-error", "%v", err)
			}
			c.add("close", string(reason))
		})
		m.OnReconnect(func(attempt uint32) { c.add("reconnect", fmt.Sprint(attempt)) })
		m.OnReconnectAttempt(func(attempt uint32) { c.add("reconnect_attempt", fmt.Sprint(attempt)) })
		m.OnReconnectError(func(err error) { c.add("reconnect_error", err.Error()) })
		m.OnReconnectFailed(func() { c.add("reconnect_failed", "") })
		m.OnOpen(func() { c.add("open", "") })
	}
	return c
}

// SrvSock is the application's view of one server-side socket.
type SrvSock struct {
	W      *World
	Socket sio.ServerSocket
	Nsp    string
	ConnAt int64
	// ClosedEarly: the socket was already closed when the connection handler had attached its handlers.
	ClosedEarly bool

	mu   sync.Mutex
	Life []LifeEvent
}

func (s *SrvSock) add(kind, reason string) {
	now := s.W.E.Now()
	s.mu.Lock()
	s.Life = append(s.Life, LifeEvent{At: now, Kind: kind, Reason: reason, ID: string(s.Socket.ID())})
	s.mu.Unlock()
	s.W.E.Log(200, "srv."+kind, "%s id=%s %s", s.Nsp, s.Socket.ID(), reason)
}

func (s *SrvSock) Events() []LifeEvent {
	s.mu.Lock()
	defer s.mu.Unlock()
	return append([]LifeEvent(nil), s.Life...)
}

// SrvReg records every server-side socket whose connection handler ran.
type SrvReg struct {
	W     *World
	mu    sync.Mutex
	Socks []*SrvSock
	OnNew func(s *SrvSock)
	early map[sio.ServerSocket]*SrvSock
}

func (w *World) NewSrvReg() *SrvReg { return &SrvReg{W: w} }

// Watch registers the recorder on a namespace.
//
// The handlers are attached in a namespace middleware, that is before the socket is admitted: the
// connection handler runs on a goroutine of its own, concurrently with whatever happens to the
// socket next, and a handler attached there can miss the very event it is meant to see (the socket
// may already be closed). Sockets that skip the middlewares (recovered sessions with
// UseMiddlewares off) get their handlers in the connection handler.
func (r *SrvReg) Watch(n *sio.Namespace) {
	attach := func(socket sio.ServerSocket) *SrvSock {
		s := &SrvSock{W: r.W, Socket: socket, Nsp: n.Name()}
		socket.OnDisconnecting(func(reason sio.Reason) {
			s.add("disconnecting", string(reason)+fmt.Sprintf(" rooms=%d", socket.Rooms().Cardinality()))
		})
		socket.OnDisconnect(func(reason sio.Reason) { s.add("disconnect", string(reason)) })
		socket.OnError(func(err error) { s.add("error", err.Error()) })
		return s
	}
	n.Use(func(socket sio.ServerSocket, _ *sio.Handshake) any {
		s := attach(socket)
		r.mu.Lock()
		if r.early == nil {
			r.early = map[sio.ServerSocket]*SrvSock{}
		}
		r.early[socket] = s
		r.mu.Unlock()
		return nil
	})
	n.OnConnection(func(socket sio.ServerSocket) {
		r.mu.Lock()
		s := r.early[socket]
		delete(r.early, socket)
		r.mu.Unlock()
		if s == nil {
			s = attach(socket)
			// the socket may have been closed before the handlers above were attached, and then nobody calls them
			s.ClosedEarly = !socket.Connected()
		}
		s.ConnAt = r.W.E.Now()
		r.mu.Lock()
		r.Socks = append(r.Socks, s)
		r.mu.Unlock()
		s.add("connection", "")
		if r.OnNew != nil {
			r.OnNew(s)
		}
	})
}

func (r *SrvReg) All() []*SrvSock {
	r.mu.Lock()
	defer r.mu.Unlock()
	return append([]*SrvSock(nil), r.Socks...)
}

// ByID finds the live server socket with the given id (latest wins).
func (r *SrvReg) ByID(id sio.SocketID, nsp string) *SrvSock {
	r.mu.Lock()
	defer r.mu.Unlock()
	for i := len(r.Socks) - 1; i >= 0; i-- {
		if r.Socks[i].Socket.ID() == id && (nsp == "" || r.Socks[i].Nsp == nsp) {
			return r.Socks[i]
		}
	}
	return nil
}

// WaitUntil polls a condition on the fake clock (1 ms steps) up to max; it
// returns whether the condition became true.
func WaitUntil(max time.Duration, cond func() bool) bool {
	deadline := time.Now().Add(max)
	for {
		if cond() {
			return true
		}
		if time.Now().After(deadline) {
			return false
		}
		time.Sleep(time.Millisecond)
	}
}

var _ = sim.NewRand
