package world

import (
	"bytes"
	"fmt"
	"strconv"
	"sync"

	eio "github.com/karagenc/socket.io-go/engine.io"
	eioparser "github.com/karagenc/socket.io-go/engine.io/parser"
)

// ProtoServer is a protocol-level Socket.IO endpoint: the repository's own Engine.IO server
// (all transports, upgrade, heartbeat: real code) with a hand-written Socket.IO layer on top
// that records every MESSAGE frame in arrival order - the order on the wire, before any
// application-level dispatch - answers CONNECT for any namespace and acknowledges events
// that carry an id by echoing their arguments.
type ProtoServer struct {
	W   *World
	ES  *EIOServer
	mu  sync.Mutex
	seq int
	// Frames in arrival order over all sessions.
	Frames []ProtoFrame
	// OnFrame, when set, sees every frame after it was recorded (same goroutine, in order).
	OnFrame func(f ProtoFrame, side *EIOSide)
	NoAck   bool
}

type ProtoFrame struct {
	Seq     int
	At      int64
	Session string
	Binary  bool
	Data    []byte
}

func (w *World) StartProtoServer(cfg *eio.ServerConfig) *ProtoServer {
	ps := &ProtoServer{W: w}
	ps.ES = w.startEIOServerCB(cfg, func(side *EIOSide) *eio.Callbacks {
		cb := w.callbacks(side, eioparser.PacketTypePong)
		inner := cb.OnPacket
		cb.OnPacket = func(packets ...*eioparser.Packet) {
			inner(packets...)
			for _, p := range packets {
				if p.Type != eioparser.PacketTypeMessage {
					continue
				}
				ps.mu.Lock()
				ps.seq++
				f := ProtoFrame{Seq: ps.seq, At: w.E.Now(), Session: side.Socket.ID(), Binary: p.IsBinary, Data: append([]byte(nil), p.Data...)}
				ps.Frames = append(ps.Frames, f)
				ps.mu.Unlock()
				ps.respond(side, f)
				if ps.OnFrame != nil {
					ps.OnFrame(f, side)
				}
			}
		}
		return cb
	})
	return ps
}

func (ps *ProtoServer) Snapshot() []ProtoFrame {
	ps.mu.Lock()
	defer ps.mu.Unlock()
	return append([]ProtoFrame(nil), ps.Frames...)
}

// SendText sends one Socket.IO text frame to a session.
func (ps *ProtoServer) SendText(side *EIOSide, s string) {
	p, err := eioparser.NewPacket(eioparser.PacketTypeMessage, false, []byte(s))
	if err == nil {
		side.Socket.Send(p)
	}
}

func (ps *ProtoServer) SendBinary(side *EIOSide, b []byte) {
	p, err := eioparser.NewPacket(eioparser.PacketTypeMessage, true, b)
	if err == nil {
		side.Socket.Send(p)
	}
}

// ParseSIOHeader splits a text frame: type digit, attachments, namespace, ack id, JSON payload.
func ParseSIOHeader(data []byte) (typ byte, attachments int, nsp string, id int64, payload []byte, ok bool) {
	id = -1
	nsp = "/"
	if len(data) == 0 || data[0] < '0' || data[0] > '6' {
		return
	}
	typ = data[0] - '0'
	i := 1
	if typ == 5 || typ == 6 {
		j := bytes.IndexByte(data[i:], '-')
		if j < 0 {
			return
		}
		n, err := strconv.Atoi(string(data[i : i+j]))
		if err != nil {
			return
		}
		attachments = n
		i += j + 1
	}
	if i < len(data) && data[i] == '/' {
		j := bytes.IndexByte(data[i:], ',')
		if j < 0 {
			nsp = string(data[i:])
			i = len(data)
		} else {
			nsp = string(data[i : i+j])
			i += j + 1
		}
	}
	j := i
	for j < len(data) && data[j] >= '0' && data[j] <= '9' {
		j++
	}
	if j > i {
		v, err := strconv.ParseInt(string(data[i:j]), 10, 64)
		if err != nil {
			return
		}
		id = v
		i = j
	}
	payload = data[i:]
	ok = true
	return
}

func (ps *ProtoServer) respond(side *EIOSide, f ProtoFrame) {
	if f.Binary {
		return
	}
	typ, _, nsp, id, payload, ok := ParseSIOHeader(f.Data)
	if !ok {
		return
	}
	prefix := ""
	if nsp != "/" {
		prefix = nsp + ","
	}
	switch typ {
	case 0:
		ps.SendText(side, fmt.Sprintf(`0%s{"sid":"p-%s-%d"}`, prefix, side.Socket.ID(), f.Seq))
	case 2:
		if id >= 0 && !ps.NoAck {
			// acknowledge with the event's arguments (without its name)
			args := []byte("[]")
			if k := bytes.IndexByte(payload, ','); k >= 0 {
				args = append([]byte("["), payload[k+1:]...)
			}
			ps.SendText(side, fmt.Sprintf("3%s%d%s", prefix, id, args))
		}
	}
}
