package world

import (
	"context"
	"fmt"
	"net/http"
	"sync"
	"time"

	"nhooyr.io/websocket"
)

// RawWSServer is a protocol-level Engine.IO/Socket.IO server that is NOT the
// library's: WebSocket transport only, scripted by the plan. It performs the
// Engine.IO open, answers Socket.IO CONNECTs for any namespace, answers pings
// are not needed (it is the server: it would send them; it does not, ping
// interval is set long) and then lets the script send arbitrary frames.
type RawWSServer struct {
	W  *World
	mu sync.Mutex
	// Sessions in accept order.
	Sessions []*RawSession
	OnOpen   func(s *RawSession)
	SID      int
}

type RawFrame struct {
	At     int64
	Binary bool
	Data   []byte
}

type RawSession struct {
	Srv    *RawWSServer
	Conn   *websocket.Conn
	ID     string
	mu     sync.Mutex
	Recv   []RawFrame
	Closed int64 // fake time the read loop ended (-1 while open)
	Err    string
}

func (w *World) StartRawWSServer() *RawWSServer {
	rs := &RawWSServer{W: w}
	w.Serve(http.HandlerFunc(rs.serve))
	return rs
}

func (rs *RawWSServer) serve(rw http.ResponseWriter, r *http.Request) {
	q := r.URL.Query()
	if q.Get("transport") != "websocket" {
		rw.WriteHeader(400)
		rw.Write([]byte(`{"code":0,"message":"Transport unknown"}`))
		return
	}
	c, err := websocket.Accept(rw, r, &websocket.AcceptOptions{CompressionMode: websocket.CompressionDisabled})
	if err != nil {
		return
	}
	c.SetReadLimit(-1)
	rs.mu.Lock()
	rs.SID++
	s := &RawSession{Srv: rs, Conn: c, ID: fmt.Sprintf("rawsid%d", rs.SID), Closed: -1}
	rs.Sessions = append(rs.Sessions, s)
	rs.mu.Unlock()
	ctx := context.Background()
	open := fmt.Sprintf(`0{"sid":%q,"upgrades":[],"pingInterval":600000,"pingTimeout":600000,"maxPayload":1000000}`, s.ID)
	if err := c.Write(ctx, websocket.MessageText, []byte(open)); err != nil {
		return
	}
	rs.W.E.Log(0, "rawsrv.open", "%s", s.ID)
	if rs.OnOpen != nil {
		go rs.OnOpen(s)
	}
	for {
		mt, data, err := c.Read(ctx)
		if err != nil {
			s.mu.Lock()
			s.Closed = rs.W.E.Now()
			s.Err = err.Error()
			s.mu.Unlock()
			rs.W.E.Log(0, "rawsrv.closed", "%s %v", s.ID, err)
			return
		}
		now := rs.W.E.Now()
		s.mu.Lock()
		s.Recv = append(s.Recv, RawFrame{At: now, Binary: mt == websocket.MessageBinary, Data: data})
		s.mu.Unlock()
		rs.W.E.Log(0, "rawsrv.recv", "%s bin=%v %.60q", s.ID, mt == websocket.MessageBinary, data)
		// Socket.IO CONNECT: "40" or "40/nsp," (+ optional json) -> accept
		if mt == websocket.MessageText && len(data) >= 2 && data[0] == '4' && data[1] == '0' {
			nsp := ""
			rest := data[2:]
			if len(rest) > 0 && rest[0] == '/' {
				for i, b := range rest {
					if b == ',' {
						nsp = string(rest[:i+1])
						break
					}
				}
			}
			reply := fmt.Sprintf(`40%s{"sid":"sio-%s"}`, nsp, s.ID)
			c.Write(ctx, websocket.MessageText, []byte(reply))
		}
		if mt == websocket.MessageText && len(data) == 1 && data[0] == '2' {
			c.Write(ctx, websocket.MessageText, []byte("3"))
		}
	}
}

// Send writes one Engine.IO frame to the client (text frames must include the leading '4').
func (s *RawSession) Send(binary bool, data []byte) error {
	mt := websocket.MessageText
	if binary {
		mt = websocket.MessageBinary
	}
	ctx, cancel := context.WithTimeout(context.Background(), 60*time.Second)
	defer cancel()
	return s.Conn.Write(ctx, mt, data)
}

func (s *RawSession) Frames() []RawFrame {
	s.mu.Lock()
	defer s.mu.Unlock()
	return append([]RawFrame(nil), s.Recv...)
}

func (s *RawSession) ClosedAt() (int64, string) {
	s.mu.Lock()
	defer s.mu.Unlock()
	return s.Closed, s.Err
}

func (rs *RawWSServer) All() []*RawSession {
	rs.mu.Lock()
	defer rs.mu.Unlock()
	return append([]*RawSession(nil), rs.Sessions...)
}
