package world

import (
	"bytes"
	"context"
	"encoding/json"
	"fmt"
	"io"
	"net/http"
	"strings"
	"time"

	"nhooyr.io/websocket"
)

// Raw peers: protocol-level clients that are NOT the library's client. HTTP
// requests go through net/http over the simulated network, WebSocket through
// nhooyr directly; what is sent is under the plan's exact control.

type RawPeer struct {
	W    *World
	ID   string
	HTTP *http.Client
}

func (w *World) NewRawPeer(id string) *RawPeer {
	return &RawPeer{W: w, ID: id, HTTP: &http.Client{Transport: &http.Transport{DialContext: w.Net.Dialer(id), MaxIdleConnsPerHost: 8}}}
}

type RawHandshake struct {
	SID          string   `json:"sid"`
	Upgrades     []string `json:"upgrades"`
	PingInterval int64    `json:"pingInterval"`
	PingTimeout  int64    `json:"pingTimeout"`
	MaxPayload   int64    `json:"maxPayload"`
}

type RawResp struct {
	Status int
	Body   []byte
	Err    error
	Header http.Header
}

// Do issues an arbitrary request against the Engine.IO endpoint.
func (r *RawPeer) Do(method, query string, body io.Reader, contentLength int64, hdr map[string]string) RawResp {
	req, err := http.NewRequest(method, URL+"?"+query, body)
	if err != nil {
		return RawResp{Err: err}
	}
	if body != nil && contentLength >= 0 {
		req.ContentLength = contentLength
	}
	for k, v := range hdr {
		req.Header.Set(k, v)
	}
	resp, err := r.HTTP.Do(req)
	if err != nil {
		return RawResp{Err: err}
	}
	defer resp.Body.Close()
	b, err := io.ReadAll(resp.Body)
	return RawResp{Status: resp.StatusCode, Body: b, Err: err, Header: resp.Header}
}

// Handshake opens a polling session and returns the parsed OPEN packet.
func (r *RawPeer) Handshake(extra string) (*RawHandshake, RawResp) {
	q := "EIO=4&transport=polling"
	if extra != "" {
		q += "&" + extra
	}
	resp := r.Do("GET", q, nil, 0, nil)
	if resp.Err != nil || resp.Status != 200 || len(resp.Body) < 2 || resp.Body[0] != '0' {
		return nil, resp
	}
	first := resp.Body
	if i := bytes.IndexByte(first, 0x1e); i >= 0 {
		first = first[:i]
	}
	var hs RawHandshake
	if err := json.Unmarshal(first[1:], &hs); err != nil {
		resp.Err = err
		return nil, resp
	}
	return &hs, resp
}

func (r *RawPeer) Poll(sid string) RawResp {
	return r.Do("GET", "EIO=4&transport=polling&sid="+sid, nil, 0, nil)
}

// chunkedReader hides the length of its content so that net/http uses
// Transfer-Encoding: chunked.
type chunkedReader struct{ r io.Reader }

func (c chunkedReader) Read(p []byte) (int, error) { return c.r.Read(p) }

// Post sends a polling data request; chunked=true omits Content-Length.
func (r *RawPeer) Post(sid string, body []byte, chunked bool) RawResp {
	q := "EIO=4&transport=polling&sid=" + sid
	if chunked {
		return r.Do("POST", q, chunkedReader{bytes.NewReader(body)}, -1, map[string]string{"Content-Type": "text/plain; charset=UTF-8"})
	}
	return r.Do("POST", q, bytes.NewReader(body), int64(len(body)), map[string]string{"Content-Type": "text/plain; charset=UTF-8"})
}

// SplitPayload splits a polling response body into Engine.IO packets (text form).
func SplitPayload(b []byte) []string {
	if len(b) == 0 {
		return nil
	}
	parts := bytes.Split(b, []byte{0x1e})
	out := make([]string, len(parts))
	for i, p := range parts {
		out[i] = string(p)
	}
	return out
}

// RawWS is a protocol-level WebSocket peer.
type RawWS struct {
	Conn *websocket.Conn
	HS   *RawHandshake
}

// DialWS opens a WebSocket Engine.IO session (sid == "") or an upgrade candidate (sid != "").
func (r *RawPeer) DialWS(sid string, readLimit int64) (*RawWS, error) {
	u := strings.Replace(URL, "http://", "ws://", 1) + "?EIO=4&transport=websocket"
	if sid != "" {
		u += "&sid=" + sid
	}
	ctx, cancel := context.WithTimeout(context.Background(), 60*time.Second)
	defer cancel()
	c, _, err := websocket.Dial(ctx, u, &websocket.DialOptions{
		HTTPClient:      &http.Client{Transport: &http.Transport{DialContext: r.W.Net.Dialer(r.ID + "w")}},
		CompressionMode: websocket.CompressionDisabled,
	})
	if err != nil {
		return nil, err
	}
	c.SetReadLimit(readLimit)
	ws := &RawWS{Conn: c}
	if sid == "" {
		_, data, err := c.Read(ctx)
		if err != nil {
			return nil, err
		}
		if len(data) < 2 || data[0] != '0' {
			return nil, fmt.Errorf("expected OPEN, got %.40q", data)
		}
		var hs RawHandshake
		if err := json.Unmarshal(data[1:], &hs); err != nil {
			return nil, err
		}
		ws.HS = &hs
	}
	return ws, nil
}

// Send writes one message; fragments > 1 splits it over several Write calls (continuation frames
// once the library's write buffer flushes).
func (w *RawWS) Send(binary bool, data []byte, fragments int) error {
	mt := websocket.MessageText
	if binary {
		mt = websocket.MessageBinary
	}
	ctx, cancel := context.WithTimeout(context.Background(), 60*time.Second)
	defer cancel()
	if fragments <= 1 {
		return w.Conn.Write(ctx, mt, data)
	}
	wr, err := w.Conn.Writer(ctx, mt)
	if err != nil {
		return err
	}
	n := len(data)
	for i := 0; i < fragments; i++ {
		lo, hi := n*i/fragments, n*(i+1)/fragments
		if _, err := wr.Write(data[lo:hi]); err != nil {
			return err
		}
	}
	return wr.Close()
}

// Read returns the next message or the close status.
func (w *RawWS) Read(max time.Duration) (binary bool, data []byte, err error) {
	ctx, cancel := context.WithTimeout(context.Background(), max)
	defer cancel()
	mt, data, err := w.Conn.Read(ctx)
	return mt == websocket.MessageBinary, data, err
}
