package world

import (
	"net/http"
	"sync"
	"time"

	eio "github.com/karagenc/socket.io-go/engine.io"
	eioparser "github.com/karagenc/socket.io-go/engine.io/parser"
)

// EIOSide records what the application sees on one end of an Engine.IO session:
// packets (with fake receive times), errors, and the close report.
type EIOSide struct {
	mu        sync.Mutex
	Name      string
	OpenAt    int64
	Packets   []EIORecv
	Errors    []string
	Closes    []EIOClose
	LastHeart int64 // last time a heartbeat packet addressed to this side arrived (server: pong, client: ping)
	Socket    eio.Socket
}

type EIORecv struct {
	At     int64
	Type   eioparser.PacketType
	Binary bool
	Data   []byte
}

type EIOClose struct {
	At     int64
	Reason eio.Reason
	Err    string
}

func (s *EIOSide) Snapshot() (pk []EIORecv, cl []EIOClose, errs []string, lastHeart, openAt int64) {
	s.mu.Lock()
	defer s.mu.Unlock()
	return append([]EIORecv(nil), s.Packets...), append([]EIOClose(nil), s.Closes...), append([]string(nil), s.Errors...), s.LastHeart, s.OpenAt
}

func (w *World) callbacks(side *EIOSide, heart eioparser.PacketType) *eio.Callbacks {
	e := w.E
	return &eio.Callbacks{
		OnPacket: func(packets ...*eioparser.Packet) {
			now := e.Now()
			side.mu.Lock()
			for _, p := range packets {
				if p.Type == heart {
					side.LastHeart = now
				}
				if p.Type == eioparser.PacketTypeMessage {
					side.Packets = append(side.Packets, EIORecv{At: now, Type: p.Type, Binary: p.IsBinary, Data: append([]byte(nil), p.Data...)})
				}
			}
			side.mu.Unlock()
			for _, p := range packets {
				if p.Type == eioparser.PacketTypeMessage {
					e.Log(0, side.Name+".recv", "%dB bin=%v %.24q", len(p.Data), p.IsBinary, p.Data)
				} else {
					e.Log(0, side.Name+".pkt", "type=%d", p.Type)
				}
			}
		},
		OnError: func(err error) {
			side.mu.Lock()
			side.Errors = append(side.Errors, err.Error())
			side.mu.Unlock()
			e.Log(0, side.Name+".error", "%v", err)
		},
		OnClose: func(reason eio.Reason, err error) {
			now := e.Now()
			es := ""
			if err != nil {
				es = err.Error()
			}
			side.mu.Lock()
			side.Closes = append(side.Closes, EIOClose{At: now, Reason: reason, Err: es})
			side.mu.Unlock()
			e.Log(0, side.Name+".close", "reason=%q err=%q", reason, es)
		},
	}
}

// EIOServer is a bare Engine.IO server on the simulated listener.
type EIOServer struct {
	W      *World
	Server *eio.Server
	mu     sync.Mutex
	Socks  []*EIOSide
	OnNew  func(side *EIOSide)
}

func (w *World) StartEIOServer(cfg *eio.ServerConfig) *EIOServer {
	return w.StartEIOServerWrapped(cfg, nil)
}

// StartEIOServerWrapped lets the caller put an http.Handler around the server (request recorders).
func (w *World) StartEIOServerWrapped(cfg *eio.ServerConfig, wrap func(http.Handler) http.Handler) *EIOServer {
	return w.startEIOServer(cfg, wrap, nil)
}

func (w *World) startEIOServerCB(cfg *eio.ServerConfig, mk func(side *EIOSide) *eio.Callbacks) *EIOServer {
	return w.startEIOServer(cfg, nil, mk)
}

func (w *World) startEIOServer(cfg *eio.ServerConfig, wrap func(http.Handler) http.Handler, mk func(side *EIOSide) *eio.Callbacks) *EIOServer {
	es := &EIOServer{W: w}
	if cfg.Debugger == nil {
		cfg.Debugger = w.EIODbg
	}
	es.Server = eio.NewServer(func(socket eio.ServerSocket) *eio.Callbacks {
		side := &EIOSide{Name: "srv", Socket: socket, OpenAt: w.E.Now()}
		side.LastHeart = side.OpenAt
		es.mu.Lock()
		es.Socks = append(es.Socks, side)
		es.mu.Unlock()
		w.E.Log(0, "srv.open", "sid=%s", socket.ID())
		if es.OnNew != nil {
			es.OnNew(side)
		}
		if mk != nil {
			return mk(side)
		}
		return w.callbacks(side, eioparser.PacketTypePong)
	}, cfg)
	if err := es.Server.Run(); err != nil {
		w.E.Violate("harness/eio-run", "world", "%v", err)
	}
	var h http.Handler = es.Server
	if wrap != nil {
		h = wrap(h)
	}
	w.Serve(h)
	return es
}

func (es *EIOServer) Sides() []*EIOSide {
	es.mu.Lock()
	defer es.mu.Unlock()
	return append([]*EIOSide(nil), es.Socks...)
}

// DialEIO connects an Engine.IO client through the simulated network.
func (w *World) DialEIO(id int, o ClientOpts) (*EIOSide, error) {
	side := &EIOSide{Name: "cli"}
	cfg := w.EIOClientConfig(id, o)
	sock, err := eio.Dial(URL, w.callbacks(side, eioparser.PacketTypePing), &cfg)
	now := w.E.Now()
	side.mu.Lock()
	side.OpenAt = now
	if side.LastHeart == 0 {
		side.LastHeart = now
	}
	side.Socket = sock
	side.mu.Unlock()
	if err != nil {
		w.E.Log(0, "cli.dial", "error %v", err)
		return side, err
	}
	w.E.Log(0, "cli.open", "sid=%s transport=%s", sock.ID(), sock.TransportName())
	return side, nil
}

func Transports(mode int64) []string {
	switch mode {
	case 0:
		return []string{"polling"}
	case 1:
		return []string{"websocket"}
	default:
		return []string{"polling", "websocket"}
	}
}

func Ms(v int64) time.Duration { return time.Duration(v) * time.Millisecond }
